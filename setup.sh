#!/bin/bash
# Offline set-up after a fresh restore: nothing to download; pre-build the harness crates' dependencies so the
# first check does not pay for it, and verify the tools are present.
set -e
cd "$(dirname "$0")"
export CARGO_NET_OFFLINE=true
command -v cargo-kani >/dev/null || { echo "cargo-kani missing"; exit 1; }
command -v python3-vt >/dev/null || { echo "python3-vt missing"; exit 1; }
mkdir -p evidence replays "${VERIF_SCRATCH:-/var/tmp/verif-tiny-std}"
python3 tools/gen_manifest.py
echo "setup ok"
