#!/usr/bin/env python3-vt
"""Validates MANIFEST.json and every evidence/<id>.json against the schemas in /root/.vp; checks that each claimed property has
an evidence file and that not_applicable + checks cover all 20 properties."""
import json, os, sys
import jsonschema
V = os.path.dirname(os.path.dirname(os.path.abspath(__file__)))
m = json.load(open(os.path.join(V, "MANIFEST.json")))
jsonschema.validate(m, json.load(open("/root/.vp/MANIFEST.schema.json")))
es = json.load(open("/root/.vp/EVIDENCE.schema.json"))
ids = [json.loads(l)["id"] for l in open(os.path.join(V, "properties.jsonl"))]
claimed = [c["property_id"] for c in m["checks"]]
na = [c["property_id"] for c in m["not_applicable"]]
bad = 0
assert sorted(claimed + na) == sorted(ids), "claimed + not_applicable must cover all properties exactly once"
for pid in claimed:
    p = os.path.join(V, "evidence", pid + ".json")
    if not os.path.exists(p):
        print("MISSING evidence", pid); bad += 1; continue
    e = json.load(open(p))
    try:
        jsonschema.validate(e, es)
    except jsonschema.ValidationError as ex:
        print("INVALID evidence", pid, ex.message[:200]); bad += 1; continue
    print("%s tier=%s level=%s evaluations=%s nontrivial=%s violations=%s wall=%ss" % (pid, e.get("tier"), e.get("level"), e["coverage"].get("evaluations"), e["coverage"].get("distinct_nontrivial"), e.get("violations"), e.get("wall_s")))
print("claimed:", len(claimed), "not applicable:", na, "problems:", bad)
sys.exit(1 if bad else 0)
