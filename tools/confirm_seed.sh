#!/bin/bash
# tools/confirm_seed.sh <id> <worktree> <out_dir> <crate-dir> <demo-file> [extra cargo test args]
# Confirms a seeded change in a scratch worktree: (1) the workspace builds and the existing suite passes with the change,
# (2) the demonstration fails with the change, (3) the demonstration passes without it.  Prints one summary line.
id=$1; wt=$2; out=$3; crate=$4; demo=$5; shift 5
export CARGO_NET_OFFLINE=true CARGO_TARGET_DIR=/var/tmp/seedtarget_$id
cd "$wt" || exit 9
git checkout -q -- . ; git clean -fdq
git apply "$out/patch.diff" || { echo "seed=$id APPLY_FAILED"; exit 3; }
suite=$(cargo test --workspace --offline --no-fail-fast -- --test-threads=4 --skip send_recv_msg_with_control 2>&1 | grep -E "^test result|FAILED|panicked" | grep -v "^test result: ok" | head -5)
mkdir -p "$crate/tests"; cp "$out/$demo" "$crate/tests/"
t=$(basename "$demo" .rs)
with=$(cargo test -p "$(basename $crate)" --offline --test "$t" "$@" 2>&1 | grep -E "^test result" | tail -1)
git checkout -q -- . 
without=$(cargo test -p "$(basename $crate)" --offline --test "$t" "$@" 2>&1 | grep -E "^test result" | tail -1)
rm -f "$crate/tests/$demo"; git clean -fdq
echo "seed=$id | existing-suite-with-change: ${suite:-all ok} | demo WITH change: $with | demo WITHOUT change: $without"
rm -rf "$CARGO_TARGET_DIR"
