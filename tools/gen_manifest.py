#!/usr/bin/env python3
"""Regenerates /verif/MANIFEST.json from the table below (single source of truth for the interface file)."""
import json
import os

VERIF = os.path.dirname(os.path.dirname(os.path.abspath(__file__)))

K_TECH = "bounded model checking of the compiled code with Kani/CBMC (SAT), symbolic inputs; counterexamples replayed natively"
K_NOTE_KERNEL = ("Trusted: Kani 0.68/CBMC 6.11/cadical; the symbolic kernel in engine_k/sc (replaces the `sc` crate's "
                 "`syscall` instruction; contracts listed in evidence); bounds as stated; x86_64 only.")
K_NOTE = "Trusted: Kani 0.68/CBMC 6.11/cadical; the short reference functions in the harness; bounds as stated; x86_64 only."

CHECKS = {
    "C08": dict(engine="K", technique=K_TECH, design_ref="§4 C08",
                text=("Bounded model checking of tiny-start's memcpy/memmove/memset/memcmp/bcmp with symbolic length, both "
                      "misalignments, overlap distance, fill byte and all buffer bytes; the C definition is asserted at a symbolic index over "
                      "the whole 64-byte buffer, so a write outside the destination is a failure."),
                note=K_NOTE + " Quick: n <= 24 (memmove n <= 18, split in three overlap cases); thorough: n <= 40 (memmove <= 26). Larger n outside."),
    "C12": dict(engine="K", technique=K_TECH, design_ref="§4 C12",
                text=("Bounded model checking of ~20 descriptor-creating operations of tiny-std above a symbolic kernel with a descriptor "
                      "table: the failing system call (index, errno) is a free variable; afterwards open set == initial set + descriptors "
                      "owned by the result, no double close, no foreign close, no use after close."),
                note=K_NOTE_KERNEL + " One injected failure per run in quick (two in thorough); scenario list in evidence; openpty, "
                     "getpwuid_r, Stdio::Null use constants Kani cannot encode and are not covered."),
    "C17": dict(engine="K", technique=K_TECH, design_ref="§4 C17",
                text=("Bounded model checking of the ring hand-over from an ARBITRARY valid ring state (symbolic 32-bit head/tail bases "
                      "incl. the wrap, symbolic pending counts): L symbolic steps of application and kernel actions with ghost sequence "
                      "stamps prove exactly-once, in-order consumption/reaping and no early slot reuse. An induction step over ring "
                      "states within the size bound, not a proof."),
                note=K_NOTE + " Source hook `verif-hooks` (constructor only). Ring sizes 1,2,4 (8 in thorough), 3-4 steps (5-6 thorough). "
                     "One known finding (completion slot released before the caller reads it) is excluded from the main harnesses and "
                     "checked separately."),
    "C09": dict(engine="K", technique=K_TECH, design_ref="§4 C09",
                text=("Bounded model checking of each rusl wrapper with the value returned by its `syscall` instruction as a free 64-bit "
                      "variable: Err iff the value is in [-4095,-1], errno exact and positive, success value carried unchanged, exactly one "
                      "call (dup3: re-issue only after -EBUSY, asserted inside the kernel stand-in). One harness per wrapper; wrappers "
                      "without a harness are listed in evidence."),
                note=K_NOTE_KERNEL + " Full 64-bit return value; no loop bound involved except dup3's retry (<= 2 retries)."),
    "C10": dict(engine="K", technique=K_TECH, design_ref="§4 C10",
                text=("Bounded model checking of every safe UnixStr/UnixString constructor, conversion and path operation over all byte "
                      "strings up to the stated length (all 256 byte values): result ends with its only NUL, unrepresentable input gives "
                      "Err, and no panic/overflow/out-of-bounds is reachable."),
                note=K_NOTE + " alloc::fmt::format is real in from_format and replaced by 'any text' in path_join_fmt; `unix_lit!` "
                     "constants cannot be encoded by Kani 0.68 (constant fat pointer) and are validated by rustc at compile time instead."),
    "C19": dict(engine="K", technique=K_TECH, design_ref="§4 C19",
                text=("Bounded model checking at full 64-bit width: t+d, t-d, a-b for SystemTime/Instant are exact and normalised or None "
                      "(oracle in 128-bit carry form, no multiplication), round-trip laws, ordering vs subtraction, panic-freedom for "
                      "negative seconds; clock readings and nanosleep interruptions are symbolic (time is a variable of the formula)."),
                note=K_NOTE_KERNEL + " No size bound on values; sleep: <= 3 EINTR interruptions."),
    "C11": dict(engine="K", technique=K_TECH, design_ref="§4 C11",
                text=("Bounded model checking: every pair of operand byte strings up to the stated length (all 255 non-NUL byte "
                      "values) is decided by the SAT solver against byte-string reference definitions; Kani's pointer checks decide "
                      "'reads outside its arguments'. Bounded, not a proof: longer operands are outside the claim."),
                note=K_NOTE + " Quick: operands <= 3..5 bytes per operation; thorough: <= 5..8 bytes."),
}

NOT_APPLICABLE = {
    "C04": ("needs a symbolic multi-operation induction step through dlmalloc (malloc->free->malloc with symbolic sizes); the "
            "smallest instance exceeded 15 min / 40 GB with Kani 0.68 + CBMC 6.11 and no other encoder for pointer-rich heap "
            "code is available in the image; concrete repeated workloads would be enumeration, not a solver verdict (DESIGN.md §4 C04)"),
}
PENDING = "check not built yet in this round (design in DESIGN.md §4); will be claimed once its harnesses run"

ALL = ["C%02d" % i for i in range(1, 21)]


def main():
    checks = []
    for pid in ALL:
        if pid not in CHECKS:
            continue
        c = CHECKS[pid]
        checks.append({
            "property_id": pid,
            "quick_cmd": "./check %s --tier quick" % pid,
            "thorough_cmd": "./check %s --tier thorough" % pid,
            "evidence_file": "evidence/%s.json" % pid,
            "replay_cmd_template": "./check %s --replay {path}" % pid,
            "engine": c["engine"],
            "level_claimed": {"category": "model_checking", "text": c["text"], "design_ref": c["design_ref"]},
            "level_note": c["note"],
            "technique": c["technique"],
        })
    na = []
    for pid in ALL:
        if pid in CHECKS:
            continue
        na.append({"property_id": pid, "reason": NOT_APPLICABLE.get(pid, PENDING)})
    m = {
        "version": 1,
        "setup_cmd": "./setup.sh",
        "hooks": {
            "guard": "cargo feature `verif-hooks` on rusl",
            "enable": "harness crates under engine_k depend on rusl with features = [\"verif-hooks\"] (path dependency on /repo/rusl)",
            "baseline_off_cmd": "cd /repo && (cargo nextest run --workspace --no-fail-fast --offline || cargo test --workspace --no-fail-fast --offline)",
            "source_commits": ["f2070f1"],
            "add_only": True,
        },
        "engines": [
            {"name": "K", "path": "engine_k", "serves_properties": [p for p in ALL if CHECKS.get(p, {}).get("engine") == "K"],
             "kind_free_text": "Kani/CBMC bounded model checking of /repo's crates (path dependencies) above a symbolic kernel that replaces the `sc` syscall crate"},
            {"name": "M", "path": "engine_m", "serves_properties": [p for p in ALL if CHECKS.get(p, {}).get("engine") == "M"],
             "kind_free_text": "mirbmc: nightly MIR dump of the real functions -> transition system -> z3 bounded model checking over schedules"},
        ],
        "checks": checks,
        "not_applicable": na,
        "notes": "exit codes: 0 held (KNOWN-FINDING lines allowed), 1 VIOLATION, 2 inconclusive (timeout/OOM/vacuity/unwinding/non-reproducing). Scratch build output goes to $VERIF_SCRATCH (default /var/tmp/verif-tiny-std).",
    }
    with open(os.path.join(VERIF, "MANIFEST.json"), "w") as fh:
        json.dump(m, fh, indent=1)
        fh.write("\n")


if __name__ == "__main__":
    main()
