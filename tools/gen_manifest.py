#!/usr/bin/env python3
"""Regenerates /verif/MANIFEST.json from the table below (single source of truth for the interface file)."""
import json
import os

VERIF = os.path.dirname(os.path.dirname(os.path.abspath(__file__)))

K_TECH = "bounded model checking of the compiled code with Kani/CBMC (SAT), symbolic inputs; counterexamples replayed natively"
K_NOTE_KERNEL = ("Trusted: Kani 0.68/CBMC 6.11/cadical; the symbolic kernel in engine_k/sc (replaces the `sc` crate's "
                 "`syscall` instruction; contracts listed in evidence); bounds as stated; x86_64 only.")
K_NOTE = "Trusted: Kani 0.68/CBMC 6.11/cadical; the short reference functions in the harness; bounds as stated; x86_64 only."

M_TECH = "bounded model checking of schedules: nightly MIR of the real functions -> thread automata -> z3 (bit-blast + SAT) over all interleavings of <= K visible steps"
M_NOTE = ("Trusted: rustc's MIR as a rendering of the source; the MIR interpreter in engine_m (subset, hard error on anything unknown); "
          "the environment model (futex wait/wake, weak-CAS failure, SC interleavings + vector-clock happens-before) listed in evidence; z3. "
          "Counterexample schedules are reported from the model as step lists; a native deterministic-scheduler replay is not implemented.")

CHECKS = {
    "C01": dict(engine="M", technique=M_TECH, design_ref="§4 C01",
                text=("Bounded model checking over schedules: the MIR of Mutex::lock/try_lock/unlock (with lock_contended, spin, wake, "
                      "futex_wait_fast, rusl's futex wrappers inlined down to the syscall asm!) is turned into thread automata; scheduler "
                      "choice, wake choice, spurious futex returns and weak-CAS failures of every step are free variables. Queries per "
                      "configuration: two live guards, data race (happens-before), all-parked deadlock, reachable panic, try_lock failing "
                      "without having seen the lock held; plus 'all threads finish' as vacuity witness."),
                note=M_NOTE + " Quick: 2 threads K=26..30 (four program mixes) and 3 threads K=24; thorough: up to K=40 / 4 threads K=22 (one happens-before query at K=30 instead of 36)."),
    "C02": dict(engine="M", technique=M_TECH, design_ref="§4 C02",
                text=("Bounded model checking over schedules, as C01, for RwLock: the MIR of read/write/try_read/try_write, read_contended, "
                      "write_contended, spin loops, read_unlock/write_unlock, wake_writer_or_readers, wake_writer (futex wrappers inlined "
                      "down to the syscall asm!) becomes thread automata; queries per configuration: a write guard live together with any "
                      "other guard, data race on the protected data (happens-before), all-parked deadlock (lost wake-up), reachable panic, a "
                      "try_* operation that parks or fails although the state it observed admitted it; plus 'all threads finish' as "
                      "vacuity witness."),
                note=M_NOTE + " Quick: every 2-thread mix {R,W},{W,W},{R,R},{tryR,W},{tryW,R} at K=18..20 (race query at K=16); the "
                     "3-thread mix {W,W,R} K=18 (420 s cap) is a BUG-HUNTING query only (sat = violation; unsat is out of the solver's reach at this size "
                     "and no verdict is recorded as 'undecided', not as held). Thorough: K=24..28 and three 3-thread hunting queries."),
    "C05": dict(engine="K", technique=K_TECH, design_ref="§14 (C05/C06)",
                text=("Bounded model checking of the real thread::spawn, JoinHandle::join, JoinHandle::drop and the thread panic handler for ONE "
                      "thread above a kernel stand-in for mmap/clone/set_tid_address/futex/munmap/exit: the schedule is a symbolic choice "
                      "among the orders that do not commute (which compare-exchange on the sync flag comes first; whether the kernel's "
                      "clear-tid write + wake lands before or while the parent is parked), the closure returns or panics, the handle is joined "
                      "or dropped, the stack mmap or the clone may fail with any errno, a parked FUTEX_WAIT may return spuriously. "
                      "Asserted: closure runs exactly once; join returns only after the thread's exit, with Some(value) / None iff "
                      "panicked; a failed spawn returns Err (no handle whose join never returns)."),
                note=K_NOTE_KERNEL + " Source hook `verif-hooks` on tiny-std. Kani has no threads: the reduction to non-commuting orders is "
                     "argued in DESIGN.md §14 and is part of the claim; the __clone assembly is replaced by a model written from its "
                     "comments. Result type u32 in quick; (), u128, 64-byte-aligned struct in thorough. One thread at a time. A violation "
                     "is reported from the solver's verdict alone: these harnesses have no native replay (no real threads in a playback test)."),
    "C06": dict(engine="K", technique=K_TECH, design_ref="§14 (C05/C06)",
                text=("Same harnesses as C05, resource side: in every non-commuting order of {closure returns, closure panics} x {handle joined, "
                      "handle dropped before / while / after the thread finishes} the stack mapping is unmapped exactly once, the TLS block and "
                      "the thread shared memory are freed exactly once with the layout they were allocated with, never before the other "
                      "party's last access (the kernel's clear-tid write included: use-after-free and double free are CBMC pointer checks), "
                      "and nothing the runtime allocated is left behind except a panicked thread's closure; a failed spawn leaves nothing."),
                note=K_NOTE_KERNEL + " As C05. 'Thousands of threads in any mixture' is reduced to one thread from a clean state: threads "
                     "share no runtime state apart from the allocator; histories and heap baseline over many threads are outside."),
    "C03": dict(engine="K", technique=K_TECH, design_ref="§4 C03, §10",
                text=("PARTIAL (a small part of the property), stated: bounded model checking of (1) the allocator's size/index arithmetic "
                      "at full 64-bit width (request padding, small-bin and tree-bin indexing, bit tricks, alignment) and (2) ONE malloc of "
                      "any usize on the fresh heap above an OS model that may refuse memory (null iff too large or refused; aligned; "
                      "block and header inside mapped memory; allocator untouched on refusal). Nothing else is decided."),
                note=K_NOTE_KERNEL + " memalign, calloc, free, realloc, any second operation, and therefore reuse, coalescing, contents "
                     "intact, heap usable after OOM - most of the property - are outside: each was built and measured and gives no "
                     "verdict within 15-30 min / 24 GB with Kani 0.68 + CBMC 6.11 (DESIGN.md §4 C03)."),
    "C07": dict(engine="K", technique=K_TECH, design_ref="§4 C07",
                text=("Bounded model checking of the start-up walk (tiny_start::start::resolve + AuxValues::from_auxv) over symbolic kernel "
                      "stack images and of env::var/var_unix/args over symbolic environment blocks, against the definition 'first entry whose "
                      "name equals the key exactly'."),
                note=K_NOTE + " Partial: link modes, self-relocation, vDSO and the assembly entry point are outside (see evidence.outside_claim)."),
    "C13": dict(engine="K", technique=K_TECH, design_ref="§4 C13",
                text=("Bounded model checking of Command::spawn above a symbolic kernel in which fork returns symbolically as child or parent, "
                      "any one system call may fail with any errno, execve succeeds or fails, and the parent's pipe read is scripted: spawn "
                      "returns only in the caller; at exec the program, argv, envp, cwd, ids, process group and stdio are exactly the "
                      "configured ones; a failing child step is reported with its positive errno; wait/try_wait report the kernel's status."),
                note=K_NOTE_KERNEL + " Quick: <=1 arg/env entry, cwd/uid options (stdin pipe on the parent side), one caller-supplied pre-exec step that may fail; thorough: <=2, stdin pipe on the child side, gid/pgroup/stdout descriptor."),
    "C14": dict(engine="K", technique=K_TECH, design_ref="§4 C14",
                text=("Bounded model checking above a model file system inside the kernel stand-in: create_dir_all from every prefix-closed "
                      "prior state of the tree for a table of path shapes; File::copy for every source length and prior destination with "
                      "short copies; OpenOptions' flag word against the std semantics for all 64 combinations; directory iteration over "
                      "symbolic linux_dirent64 records across refills."),
                note=K_NOTE_KERNEL + " PARTIAL: remove_dir_all on real trees, symlinks/fifos, 512-byte path boundary, fan-out in the thousands, "
                     "fs::read (read_to_end) are outside."),
    "C15": dict(engine="K", technique=K_TECH, design_ref="§4 C15",
                text=("Bounded model checking of read_exact, write_all, write_fmt and the ReadBuf cursor arithmetic against a reader/writer "
                      "whose every response (k bytes, 0, EINTR, error) is chosen by the solver."),
                note=K_NOTE + " PARTIAL: read_to_end/read_to_string are NOT covered (CBMC ran out of 40-60 GB in every formulation tried). "
                     "<= 8 bytes, <= 9 calls already in the quick tier; thorough = quick."),
    "C16": dict(engine="K", technique=K_TECH, design_ref="§4 C16",
                text=("Bounded model checking of the library side: ancillary-data iteration over exactly-filled, larger and too-small control "
                      "buffers (no load outside, exactly the descriptors written), sockaddr_un/sockaddr_in conversions, and the ppoll wait "
                      "logic (Timeout only after ppoll timed out with exactly the requested Duration, try_* never waits, EINTR retried; every accepted "
                      "stream is created non-blocking and close-on-exec, for Unix and TCP listeners)."),
                note=K_NOTE_KERNEL + " PARTIAL: byte transport by the real kernel, MiB-scale buffers and two-process timing are outside."),
    "C18": dict(engine="K", technique=K_TECH, design_ref="§4 C18",
                text=("Bounded model checking of (1) setup_io_uring + drop above a kernel stand-in with exact mmap/munmap bookkeeping and one "
                      "injected failure, (2) every submission-entry constructor against a field table transcribed from io_uring_enter(2)/liburing."),
                note=K_NOTE_KERNEL + " PARTIAL: that the kernel executes an entry with the direct system call's result is outside."),
    "C20": dict(engine="K", technique=K_TECH, design_ref="§4 C20",
                text=("Bounded model checking of the parsers generated by the derive macros for four struct shapes, differentially against "
                      "reference parsers written from the declared grammar, over argument vectors of arbitrary bytes; panics are failures."),
                note=K_NOTE + " Quick: shape A <= 3 arguments of <= 3 bytes, shapes B and C <= 2 arguments, the error-cause buffer for every fill level / chunk length <= 300; thorough: 3 arguments for shapes B1, C, D and 4 for shape A (the 140-byte argument through the real formatter gave no verdict in 57 min and is not registered; the cause-buffer harness covers every chunk length <= 300)."),
    "C08": dict(engine="K", technique=K_TECH, design_ref="§4 C08",
                text=("Bounded model checking of tiny-start's memcpy/memmove/memset/memcmp/bcmp with symbolic length, both "
                      "misalignments, overlap distance, fill byte and all buffer bytes; the C definition is asserted at a symbolic index over "
                      "the whole 64-byte buffer, so a write outside the destination is a failure."),
                note=K_NOTE + " Quick: n <= 24 (memmove n <= 18, split in three overlap cases); thorough: n <= 40 (memmove <= 26). Larger n outside."),
    "C12": dict(engine="K", technique=K_TECH, design_ref="§4 C12",
                text=("Bounded model checking of ~20 descriptor-creating operations of tiny-std above a symbolic kernel with a descriptor "
                      "table: the failing system call (index, errno) is a free variable; afterwards open set == initial set + descriptors "
                      "owned by the result, no double close, no foreign close, no use after close."),
                note=K_NOTE_KERNEL + " One injected failure per run in quick (two in thorough); scenario list in evidence; openpty, "
                     "getpwuid_r, Stdio::Null use constants Kani cannot encode and are not covered."),
    "C17": dict(engine="K", technique=K_TECH, design_ref="§4 C17",
                text=("Bounded model checking of the ring hand-over from an ARBITRARY valid ring state (symbolic 32-bit head/tail bases "
                      "incl. the wrap, symbolic pending counts): L symbolic steps of application and kernel actions with ghost sequence "
                      "stamps prove exactly-once, in-order consumption/reaping and no early slot reuse. An induction step over ring "
                      "states within the size bound, not a proof."),
                note=K_NOTE + " Source hook `verif-hooks` (constructor only). Ring sizes 1,2,4; 3-4 steps (6 steps in thorough, 38 min; ring size 8 gave no verdict in 57 min and is not registered). "
                     "One known finding (completion slot released before the caller reads it) is excluded from the main harnesses and "
                     "checked separately."),
    "C09": dict(engine="K", technique=K_TECH, design_ref="§4 C09",
                text=("Bounded model checking of each rusl wrapper with the value returned by its `syscall` instruction as a free 64-bit "
                      "variable: Err iff the value is in [-4095,-1], errno exact and positive, success value carried unchanged, exactly one "
                      "call (dup3: re-issue only after -EBUSY, asserted inside the kernel stand-in). One harness per wrapper; wrappers "
                      "without a harness are listed in evidence."),
                note=K_NOTE_KERNEL + " Full 64-bit return value; no loop bound involved except dup3's retry (<= 2 retries)."),
    "C10": dict(engine="K", technique=K_TECH, design_ref="§4 C10",
                text=("Bounded model checking of every safe UnixStr/UnixString constructor, conversion and path operation over all byte "
                      "strings up to the stated length (all 256 byte values): result ends with its only NUL, unrepresentable input gives "
                      "Err, and no panic/overflow/out-of-bounds is reachable."),
                note=K_NOTE + " alloc::fmt::format is real in from_format and replaced by 'any text' in path_join_fmt; `unix_lit!` "
                     "constants cannot be encoded by Kani 0.68 (constant fat pointer) and are validated by rustc at compile time instead."),
    "C19": dict(engine="K", technique=K_TECH, design_ref="§4 C19",
                text=("Bounded model checking at full 64-bit width: t+d, t-d, a-b for SystemTime/Instant are exact and normalised or None "
                      "(oracle in 128-bit carry form, no multiplication), round-trip laws, ordering vs subtraction, panic-freedom for "
                      "negative seconds; clock readings and nanosleep interruptions are symbolic (time is a variable of the formula)."),
                note=K_NOTE_KERNEL + " No size bound on values; sleep: <= 3 EINTR interruptions."),
    "C11": dict(engine="K", technique=K_TECH, design_ref="§4 C11",
                text=("Bounded model checking: every pair of operand byte strings up to the stated length (all 255 non-NUL byte "
                      "values) is decided by the SAT solver against byte-string reference definitions; Kani's pointer checks decide "
                      "'reads outside its arguments'. Bounded, not a proof: longer operands are outside the claim."),
                note=K_NOTE + " Operands <= 5..8 bytes per operation (find <= 6, join <= 5) already in the quick tier (the deeper bounds cost under 2 minutes); thorough = quick."),
}

NOT_APPLICABLE = {
    "C04": ("needs a symbolic multi-operation induction step through dlmalloc (malloc->free->malloc with symbolic sizes); the "
            "smallest instance exceeded 15 min / 40 GB with Kani 0.68 + CBMC 6.11 and no other encoder for pointer-rich heap "
            "code is available in the image; concrete repeated workloads would be enumeration, not a solver verdict (DESIGN.md §4 C04)"),
}
PENDING = "check not built yet in this round (design in DESIGN.md §4); will be claimed once its harnesses run"

ALL = ["C%02d" % i for i in range(1, 21)]


def main():
    checks = []
    for pid in ALL:
        if pid not in CHECKS:
            continue
        c = CHECKS[pid]
        checks.append({
            "property_id": pid,
            "quick_cmd": "./check %s --tier quick" % pid,
            "thorough_cmd": "./check %s --tier thorough" % pid,
            "evidence_file": "evidence/%s.json" % pid,
            "replay_cmd_template": "./check %s --replay {path}" % pid,
            "engine": c["engine"],
            "level_claimed": {"category": "model_checking", "text": c["text"], "design_ref": c["design_ref"]},
            "level_note": c["note"],
            "technique": c["technique"],
        })
    na = []
    for pid in ALL:
        if pid in CHECKS:
            continue
        na.append({"property_id": pid, "reason": NOT_APPLICABLE.get(pid, PENDING)})
    m = {
        "version": 1,
        "setup_cmd": "./setup.sh",
        "hooks": {
            "guard": "cargo feature `verif-hooks` (on rusl and on tiny-std)",
            "enable": "harness crates under engine_k depend on rusl (k_rusl) / tiny-std (k_thread) with features = [\"verif-hooks\"] (path dependencies on /repo); rusl: adds the constructor IoUring::verif_from_raw_parts; tiny-std: compiles thread::spawn without `symbols`, turns #[panic_handler] on the thread panic handler into cfg_attr(not(verif-hooks)), adds a stand-in for the TLS register and issues the handler's final munmap/exit through the `sc` crate",
            "baseline_off_cmd": "cd /repo && (cargo nextest run --workspace --no-fail-fast --offline || cargo test --workspace --no-fail-fast --offline)",
            "source_commits": ["f2070f1", "253aae5", "9c4fbf0"],
            "add_only": False,
        },
        "engines": [
            {"name": "K", "path": "engine_k", "serves_properties": [p for p in ALL if CHECKS.get(p, {}).get("engine") == "K"],
             "kind_free_text": "Kani/CBMC bounded model checking of /repo's crates (path dependencies) above a symbolic kernel that replaces the `sc` syscall crate"},
            {"name": "M", "path": "engine_m", "serves_properties": [p for p in ALL if CHECKS.get(p, {}).get("engine") == "M"],
             "kind_free_text": "mirbmc: nightly MIR dump of the real functions -> transition system -> z3 bounded model checking over schedules"},
        ],
        "checks": checks,
        "not_applicable": na,
        "notes": "exit codes: 0 held (KNOWN-FINDING lines allowed), 1 VIOLATION, 2 inconclusive (timeout/OOM/vacuity/unwinding/non-reproducing). Scratch build output goes to $VERIF_SCRATCH (default /var/tmp/verif-tiny-std).",
    }
    with open(os.path.join(VERIF, "MANIFEST.json"), "w") as fh:
        json.dump(m, fh, indent=1)
        fh.write("\n")


if __name__ == "__main__":
    main()
