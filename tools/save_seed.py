#!/usr/bin/env python3
"""tools/save_seed.py <ID> <out_dir> <confirm_log> <mutant_name> <check-args> <what> <needs> <detected_by>
Copies a confirmed seeded change into /verif/seeded/<ID>_01 with meta.json (confirmation line + the check's verdict)."""
import json, os, shutil, sys, re
pid, out, clog, mut, cargs, what, needs, detected = sys.argv[1:9]
no = os.environ.get("SEED_NO", "01")
dst = os.path.join(os.path.dirname(os.path.dirname(os.path.abspath(__file__))), "seeded", pid + "_" + no)
os.makedirs(dst, exist_ok=True)
for f in os.listdir(out):
    if f.endswith((".diff", ".rs", ".md")):
        shutil.copy(os.path.join(out, f), dst)
ckey = os.environ.get("CONF_KEY", pid)
conf = [l.strip() for l in open(clog, errors="replace") if l.startswith("seed=%s " % ckey)]
mlog = os.environ.get("MUT_LOG", "/var/tmp/mutants_%s.log" % mut.replace("m_", ""))
lines = []
if os.path.exists(mlog):
    lines = [l.rstrip()[:400] for l in open(mlog, errors="replace") if re.match(r"^(mutant=|VIOLATION|KNOWN-FINDING|INCONCLUSIVE|OK )", l)]
ex = None
for l in lines:
    m = re.search(r"exit=(\d+)", l)
    if m:
        ex = int(m.group(1))
meta = {"property": pid, "what": what, "needs_to_manifest": needs,
        "origin": "independent sub-agent given only the property text and a scratch worktree",
        "confirmed_by_me": {"command": "tools/confirm_seed.sh (scratch worktree: existing suite with the change, demonstration with and without it)",
                            "result": conf[-1][:900] if conf else "see README.md"},
        "check_run": {"command": "tools/mutant_run.sh %s seeded/%s_%s/patch.diff %s %s  (patched copy of /repo)" % (mut, pid, no, pid, cargs),
                      "exit": ex, "output": lines},
        "detected_by": detected}
json.dump(meta, open(os.path.join(dst, "meta.json"), "w"), indent=1)
print(dst, "exit", ex, len(conf), "confirmation line(s)")
