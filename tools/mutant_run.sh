#!/bin/bash
# tools/mutant_run.sh <name> <patch.diff> <property> [extra ./check args]
# Evaluates a seeded change WITHOUT touching /repo: copies /repo and engine_k (path dependencies rewritten to the copy)
# under /var/tmp/mutants/<name>, applies the patch there and runs the registered check against the copy.
# (Development aid only; the registered commands always run against /repo itself.)
set -u
name=$1; patch=$2; prop=$3; shift 3
root=/var/tmp/mutants/$name
rm -rf "$root"; mkdir -p "$root/evidence" "$root/replays"
rsync -a --exclude target --exclude .git /repo/ "$root/repo/"
( cd "$root/repo" && patch -p1 -s < "$patch" ) || { echo "PATCH FAILED"; exit 3; }
rsync -a --exclude target /verif/engine_k/ "$root/engine_k/"
grep -rl "/repo/" "$root/engine_k" | xargs sed -i "s#/repo/#$root/repo/#g"
if [ -d /verif/engine_m ]; then rsync -a --exclude target /verif/engine_m/ "$root/engine_m/"; grep -rl "/repo/" "$root/engine_m" 2>/dev/null | xargs -r sed -i "s#/repo/#$root/repo/#g"; fi
cd /verif
VERIF_REPO="$root/repo" VERIF_ENGINE_K="$root/engine_k" VERIF_ENGINE_M="$root/engine_m" VERIF_SCRATCH="$root/scratch" \
  VERIF_EVIDENCE_DIR="$root/evidence" VERIF_REPLAY_DIR="$root/replays" ./check "$prop" "$@" > "$root/check.log" 2>&1
rc=$?
echo "mutant=$name property=$prop exit=$rc"
grep -E "^(VIOLATION|KNOWN-FINDING|INCONCLUSIVE|OK )" "$root/check.log" | cut -c1-300
mkdir -p "$root/logs"; cp -r "$root/scratch/logs/." "$root/logs/" 2>/dev/null; rm -rf "$root/scratch" "$root/repo/target"
exit $rc
