"""Big-step symbolic interpreter for the MIR subset: turns one thread program (a MIR function plus everything it
calls) into a control-flow automaton whose nodes are *visible operations* (atomic op, futex syscall, non-atomic
access to shared data, thread end) and whose edges carry a z3 guard and updates of thread-local variables.

Everything unknown raises MirError -> the check is inconclusive (exit 2)."""
import re
import z3

from mir import MirError, Place, Operand

WIDTH = {"u8": 8, "i8": 8, "u16": 16, "i16": 16, "u32": 32, "i32": 32, "u64": 64, "i64": 64, "usize": 64, "isize": 64,
         "bool": 1, "char": 32}
SIGNED = {"i8", "i16", "i32", "i64", "isize"}
VARIANTS = {"Ok": 0, "Err": 1, "None": 0, "Some": 1}
ORDERINGS = ("Relaxed", "Release", "Acquire", "AcqRel", "SeqCst")


class BV:
    """scalar: z3 bit-vector expression + signedness tag"""
    __slots__ = ("e", "signed")

    def __init__(self, e, signed=False):
        self.e, self.signed = e, signed

    def is_const(self):
        return z3.is_bv_value(z3.simplify(self.e))


class Ptr:
    """abstract pointer: object + field path; obj None = null. `as_int`: exposed as usize"""
    __slots__ = ("obj", "path")

    def __init__(self, obj, path=()):
        self.obj, self.path = obj, tuple(path)

    def key(self):
        return ("ptr", self.obj, self.path)


class Agg:
    """struct / tuple / enum value: fields dict; enum: 'disc' -> BV, (variant, i) -> value"""
    __slots__ = ("f", "tname")

    def __init__(self, f=None, tname=""):
        self.f = f if f is not None else {}
        self.tname = tname


class Opaque:
    """value whose content is irrelevant (&str messages, PhantomData, unit)"""
    __slots__ = ("what",)

    def __init__(self, what=""):
        self.what = what


UNIT = Opaque("()")


def type_width(t):
    t = t.strip()
    if t in WIDTH:
        return WIDTH[t], t in SIGNED
    return None


def is_ptr_type(t):
    t = t.strip()
    return t.startswith(("&", "*const", "*mut", "core::ptr::NonNull", "NonNull<", "core::ptr::non_null::NonNull"))


def bvconst(v, w):
    return z3.BitVecVal(v, w)


class VisibleOp:
    """kind: start | atomic | futex | nread | nwrite | end | panic"""

    def __init__(self, kind, **kw):
        self.kind = kind
        self.__dict__.update(kw)

    def __repr__(self):
        d = {k: v for k, v in self.__dict__.items() if k != "kind"}
        return "Op(%s %s)" % (self.kind, d)


class Path:
    def __init__(self, cond, nxt, updates, panic=None, notes=None):
        self.cond, self.nxt, self.updates, self.panic, self.notes = cond, nxt, updates, panic, notes or []


class Frame:
    __slots__ = ("fn", "bb", "idx", "env", "ret_place", "ret_bb", "site", "kill_on_return", "drops_guard", "released", "ret_wrap")

    def __init__(self, fn, bb="bb0", idx=0, env=None, ret_place=None, ret_bb=None, site="", kill_on_return=None,
                 drops_guard=None, released=False, ret_wrap=None):
        self.ret_wrap = ret_wrap
        self.fn, self.bb, self.idx, self.env = fn, bb, idx, env if env is not None else {}
        self.ret_place, self.ret_bb, self.site, self.kill_on_return = ret_place, ret_bb, site, kill_on_return
        # drops_guard: (frame index, local) of the lock guard this frame is the Drop::drop of;
        # released: that drop has already executed its releasing atomic write
        self.drops_guard, self.released = drops_guard, released

    def copy(self, env):
        return Frame(self.fn, self.bb, self.idx, env, self.ret_place, self.ret_bb, self.site, self.kill_on_return,
                     self.drops_guard, self.released, self.ret_wrap)


class Thread:
    """Builds the automaton of one thread program."""

    def __init__(self, tid, modules, entry, args, cfg):
        self.tid = tid
        self.modules = modules        # list of mir.Module, searched in order
        self.cfg = cfg                # dict: shared objects, layout, spin rewrite, ...
        self.entry = entry
        self.entry_args = args
        self.cps = {}                 # cp key -> index
        self.cp_frames = []           # index -> frames snapshot (structure with BV leaves replaced by state symbols)
        self.cp_op = []               # index -> VisibleOp
        self.paths = []               # index -> [Path]
        self.state_vars = {}          # name -> z3 const
        self.result_syms = {}         # placeholders for visible-op results
        self.choice_syms = {}
        self.trusted_calls = set()
        self.functions_used = set()
        self.holding = []             # index -> set of guard type names alive at the cp
        self.END = None

    # ------------------------------------------------------------------ symbols
    def svar(self, name, width):
        key = "t%d.%s" % (self.tid, name)
        if key not in self.state_vars:
            self.state_vars[key] = z3.BitVec(key, width)
        v = self.state_vars[key]
        if v.size() != width:
            raise MirError("state variable %s used at two widths" % key)
        return v

    def rsym(self, name, width):
        key = "t%d.res.%s" % (self.tid, name)
        if key not in self.result_syms:
            self.result_syms[key] = z3.BitVec(key, width)
        return self.result_syms[key]

    def csym(self, name, width):
        key = "t%d.choice.%s" % (self.tid, name)
        if key not in self.choice_syms:
            self.choice_syms[key] = z3.BitVec(key, width)
        return self.choice_syms[key]

    # ------------------------------------------------------------------ function lookup
    def find_function(self, callee, args):
        """resolve a callee path printed in a call terminator to a MIR function of one of the dumps"""
        name = re.sub(r"::<.*?>(?=::|$)", "", callee)          # strip generic arguments
        name = re.sub(r"^<(.+) as .+>::", r"\1::", name)
        last = name.split("::")[-1]
        owner = name.split("::")[-2] if "::" in name else ""
        owner = re.sub(r"<.*", "", owner)
        cands = []
        for m in self.modules:
            for k in m.names():
                if "#" in k:
                    continue
                fname, params, _ = m.signature(k)
                if fname == name or fname.endswith("::" + name):
                    cands.append((m, k, 3))
                elif fname.endswith("::" + last):
                    # method on an impl block: match the receiver type
                    ptypes = params
                    if owner and re.search(r"\b%s\b" % re.escape(owner), ptypes.split(",")[0] if ptypes else ""):
                        cands.append((m, k, 2))
        if not cands:
            return None
        best = max(c[2] for c in cands)
        cands = [c for c in cands if c[2] == best]
        # several generic instantiations of the same source function are equivalent for our purposes
        names = set(c[1] for c in cands)
        if len(names) > 1:
            raise MirError("ambiguous callee %s: %s" % (callee, sorted(names)[:4]))
        m, k, _ = cands[0]
        return m.get(k)

    def find_drop(self, tname):
        base = re.sub(r"::<.*|<.*", "", tname).split("::")[-1]
        for m in self.modules:
            for k in m.names():
                fname, params, _ = m.signature(k)
                if fname.endswith("::drop") and re.search(r"&mut (\w+::)*%s\b" % re.escape(base), params):
                    return m.get(k)
        return None

    # ------------------------------------------------------------------ values
    def lazy(self, frame_i, frame, local, path, ty):
        """value of a place that was not written in this big step: a state variable (scalars only)"""
        tw = type_width(ty) if ty else None
        if tw is None:
            raise MirError("read of undefined non-scalar %s%s : %s in %s" % (local, path, ty, frame.fn.name))
        nm = "f%d.%s.%s%s" % (frame_i, short(frame.fn.name) + frame.site, local, "".join("." + str(p) for p in path))
        return BV(self.svar(nm, tw[0]), tw[1])

    def const_value(self, text, hint_ty=None):
        t = text.strip()
        m = re.fullmatch(r"(-?\d+)_(\w+)", t)
        if m and m.group(2) in WIDTH:
            w = WIDTH[m.group(2)]
            return BV(bvconst(int(m.group(1)), w), m.group(2) in SIGNED)
        if t == "true":
            return BV(bvconst(1, 1))
        if t == "false":
            return BV(bvconst(0, 1))
        if t == "()":
            return UNIT
        if t.startswith('"') or t.startswith("b\""):
            return Opaque("str")
        m = re.fullmatch(r"\{0x([0-9a-f]+) as (.*)\}", t)
        if m:
            if int(m.group(1), 16) == 0:
                return Ptr(None)
            return BV(bvconst(int(m.group(1), 16), 64))
        # struct constant such as FutexFlags(NonNegativeI32(128_i32)) or tiny_std::sync::NotSend(PhantomData::<*const ()>)
        m = re.fullmatch(r"([\w:]+)\((.*)\)", t)
        if m:
            from mir import split_top
            parts = split_top(m.group(2))
            return Agg({i: self.const_value(p) for i, p in enumerate(parts)}, m.group(1))
        if re.fullmatch(r"[\w:]+(::<.*>)?", t):
            # unit-like constant / enum constant path: only orderings and PhantomData occur
            last = t.split("::")[-1]
            if last in VARIANTS:
                return Agg({"disc": BV(bvconst(VARIANTS[last], 64))}, t)
            return Opaque(t)
        raise MirError("constant not understood: " + t)


def short(name):
    n = re.sub(r"<impl at [^>]*?/(\w+)\.rs:(\d+):\d+: \d+:\d+>", r"\1\2", name)
    n = re.sub(r"[^\w]", "_", n)
    return n[-40:]


# ====================================================================== execution
class Stop(Exception):
    """raised inside a big step when the current path ends (infeasible / panic handled by caller)"""


class Exec:
    """one symbolic path of a big step"""

    def __init__(self, th, frames, cond):
        self.th, self.frames, self.cond = th, frames, cond
        self.notes = []

    def clone(self):
        import copy
        fr = []
        for f in self.frames:
            fr.append(f.copy(clone_env(f.env)))
        e = Exec(self.th, fr, self.cond)
        e.notes = list(self.notes)
        return e

    @property
    def top(self):
        return self.frames[-1]

    # ---------------------------------------------------------------- place access
    def local_type(self, frame, local):
        return frame.fn.locals.get(local, "")

    def resolve(self, frame_i, place):
        """returns ('env', frame_i, local, path, type) or ('shared', obj, path, type) for the storage a place denotes"""
        fi = frame_i
        local = place.local
        path = []
        ty = self.local_type(self.frames[fi], local)
        mode = "env"
        obj = None
        for p in place.proj:
            if p[0] == "deref":
                v = self.read_storage(mode, fi, local, obj, tuple(path), ty)
                if isinstance(v, Opaque):
                    raise OpaqueDeref()
                if not isinstance(v, Ptr):
                    raise MirError("deref of a non-pointer value in %s: %s" % (self.frames[frame_i].fn.name, place))
                if v.obj is None:
                    raise MirError("deref of null pointer")
                if isinstance(v.obj, tuple) and v.obj[0] == "frame":
                    mode, fi, local, path = "env", v.obj[1], v.obj[2], list(v.path)
                    ty = ""
                else:
                    mode, obj, path = "shared", v.obj, list(v.path)
                    ty = ""
            elif p[0] == "field":
                path.append(p[1])
                ty = p[2]
            elif p[0] == "downcast":
                path.append(("v", p[1]))
        if mode == "env":
            return ("env", fi, local, tuple(path), ty)
        return ("shared", obj, tuple(path), ty)

    def read_storage(self, mode, fi, local, obj, path, ty):
        if mode == "shared":
            raise MirError("nested read through shared memory is not supported here")
        frame = self.frames[fi]
        v = frame.env.get(local)
        cur_path = []
        if v is None:
            # undefined local: scalars become state variables, lazily, per leaf
            return self.th.lazy(fi, frame, local, normalise_path(path), ty)
        for k in path:
            cur_path.append(k)
            if isinstance(v, Agg):
                key = k
                if isinstance(k, tuple) and k[0] == "v":
                    # downcast: the following field index selects (variant, i); keep a marker
                    v = AggView(v, k[1])
                    continue
                if key not in v.f:
                    raise MirError("field %s of %s not set in %s" % (key, local, frame.fn.name))
                v = v.f[key]
            elif isinstance(v, AggView):
                key = (v.variant, k)
                if key not in v.agg.f:
                    raise MirError("variant field %s not set for %s" % (key, local))
                v = v.agg.f[key]
            elif isinstance(v, Ptr) and k == 0:
                # newtype around a pointer (NonNull<T>{pointer}, Unique, ...)
                continue
            elif isinstance(v, BV) and k == 0:
                continue  # newtype around a scalar (Errno(i32), NonNegativeI32(i32), ...)
            else:
                raise MirError("projection %s into %s in %s" % (k, type(v).__name__, frame.fn.name))
        if isinstance(v, AggView):
            raise MirError("read of a bare downcast")
        return v

    def read_place(self, place):
        r = self.resolve(len(self.frames) - 1, place)
        if r[0] == "shared":
            raise SharedAccess("read", r[1], r[2])
        _, fi, local, path, ty = r
        return self.read_storage("env", fi, local, None, path, ty)

    def write_place(self, place, val):
        r = self.resolve(len(self.frames) - 1, place)
        if r[0] == "shared":
            raise SharedAccess("write", r[1], r[2])
        _, fi, local, path, ty = r
        frame = self.frames[fi]
        if not path:
            frame.env[local] = val
            return
        root = frame.env.get(local)
        if root is None:
            root = Agg({}, "")
            frame.env[local] = root
        v = root
        keys = list(path)
        i = 0
        while i < len(keys) - 1:
            k = keys[i]
            if isinstance(k, tuple) and k[0] == "v":
                k = (k[1], keys[i + 1])
                i += 1
                if i >= len(keys) - 1:
                    break
            if not isinstance(v, Agg):
                raise MirError("write projection into non-aggregate")
            if k not in v.f:
                v.f[k] = Agg({}, "")
            v = v.f[k]
            i += 1
        k = keys[-1]
        if len(keys) >= 2 and isinstance(keys[-2], tuple) and keys[-2][0] == "v":
            k = (keys[-2][1], keys[-1])
        v.f[k] = val

    # ---------------------------------------------------------------- operands / rvalues
    def operand(self, op):
        if op.kind == "const":
            return self.th.const_value(op.const)
        return self.read_place(op.place)

    def as_bv(self, v, what=""):
        if isinstance(v, BV):
            return v
        if isinstance(v, Agg) and len(v.f) == 1 and 0 in v.f:
            return self.as_bv(v.f[0], what)
        raise MirError("scalar expected (%s), got %s" % (what, type(v).__name__))

    def eval_rvalue(self, rv, dest_ty):
        k = rv.kind
        if k == "use":
            return self.operand(rv.a[0])
        if k == "addr":
            try:
                r = self.resolve(len(self.frames) - 1, rv.a[0])
            except OpaqueDeref:
                return Opaque("ref")
            if r[0] == "shared":
                return Ptr(r[1], r[2])
            _, fi, local, path, _ = r
            return Ptr(("frame", fi, local), path)
        if k == "cast":
            v = self.operand(rv.a[0])
            ty, kind = rv.a[1], rv.a[2]
            if isinstance(v, Opaque):
                return v   # casts of opaque values (panic-message plumbing) stay opaque
            if kind in ("PtrToPtr", "Transmute") and isinstance(v, Ptr):
                return v
            if kind.startswith("PointerCoercion") and isinstance(v, (Ptr, Agg, Opaque)):
                return v
            if kind == "PointerExposeProvenance":
                if isinstance(v, Ptr):
                    return v  # pointer carried as an integer: only compared / handed to the kernel
                raise MirError("expose of non-pointer")
            if kind in ("IntToInt", "Transmute"):
                b = self.as_bv(v, "cast")
                tw = type_width(ty)
                if tw is None:
                    if kind == "Transmute" and is_ptr_type(ty):
                        return Opaque("integer transmuted to a pointer type")   # fmt::Arguments plumbing; never dereferenced by the model
                    raise MirError("cast to %s" % ty)
                w, sg = tw
                e = b.e
                if w < e.size():
                    e = z3.Extract(w - 1, 0, e)
                elif w > e.size():
                    e = z3.SignExt(w - e.size(), e) if b.signed else z3.ZeroExt(w - e.size(), e)
                return BV(e, sg)
            raise MirError("cast kind %s to %s not supported" % (kind, ty))
        if k == "binop":
            return self.binop(rv.a[0], self.operand(rv.a[1]), self.operand(rv.a[2]))
        if k == "unop":
            v0 = self.operand(rv.a[1])
            if isinstance(v0, Opaque) and rv.a[0] == "PtrMetadata":
                return BV(bvconst(0, 64))   # length of an opaque &str (panic message): irrelevant
            v = self.as_bv(v0, "unop")
            if rv.a[0] == "Not":
                return BV(~v.e, v.signed)
            if rv.a[0] == "Neg":
                return BV(-v.e, v.signed)
            raise MirError("unop " + rv.a[0])
        if k == "discriminant":
            v = self.read_place_or_lazy_disc(rv.a[0])
            return v
        if k == "tuple":
            return Agg({i: self.operand(o) for i, o in enumerate(rv.a[0])}, "tuple")
        if k == "struct":
            f = {}
            for i, (name, o) in enumerate(rv.a[1]):
                f[int(name) if name.isdigit() else i] = self.operand(o)
            return Agg(f, rv.a[0])
        if k == "variant":
            vname = rv.a[1]
            if vname not in VARIANTS:
                raise MirError("enum variant %s::%s has no known discriminant" % (rv.a[0], vname))
            f = {"disc": BV(bvconst(VARIANTS[vname], 64), True)}
            for i, o in enumerate(rv.a[2]):
                f[(vname, i)] = self.operand(o)
            return Agg(f, rv.a[0])
        raise MirError("rvalue kind " + k)

    def read_place_or_lazy_disc(self, place):
        r = self.resolve(len(self.frames) - 1, place)
        if r[0] == "shared":
            raise MirError("discriminant of shared memory")
        _, fi, local, path, ty = r
        frame = self.frames[fi]
        if frame.env.get(local) is None:
            return self.th.lazy(fi, frame, local, normalise_path(path) + ("disc",), "isize")
        v = self.read_storage("env", fi, local, None, path, ty)
        if isinstance(v, Agg) and "disc" in v.f:
            return v.f["disc"]
        raise MirError("discriminant of a value without one (%s in %s)" % (local, frame.fn.name))

    def binop(self, op, a, b):
        if op in ("Eq", "Ne") and isinstance(a, Ptr) and isinstance(b, Ptr):
            same = a.key() == b.key()
            return BV(bvconst(1 if (same == (op == "Eq")) else 0, 1))
        if op == "Offset":
            raise MirError("pointer Offset arithmetic is not supported in this configuration")
        a, b = self.as_bv(a, op), self.as_bv(b, op)
        x, y = a.e, b.e
        if op in ("Shl", "Shr", "ShlUnchecked", "ShrUnchecked") and y.size() != x.size():
            y = z3.ZeroExt(x.size() - y.size(), y) if y.size() < x.size() else z3.Extract(x.size() - 1, 0, y)
        sg = a.signed
        t = lambda c: BV(z3.If(c, bvconst(1, 1), bvconst(0, 1)))
        if op == "Eq":
            return t(x == y)
        if op == "Ne":
            return t(x != y)
        if op == "Lt":
            return t(x < y if sg else z3.ULT(x, y))
        if op == "Le":
            return t(x <= y if sg else z3.ULE(x, y))
        if op == "Gt":
            return t(x > y if sg else z3.UGT(x, y))
        if op == "Ge":
            return t(x >= y if sg else z3.UGE(x, y))
        if op in ("Add", "AddUnchecked"):
            return BV(x + y, sg)
        if op in ("Sub", "SubUnchecked"):
            return BV(x - y, sg)
        if op in ("Mul", "MulUnchecked"):
            return BV(x * y, sg)
        if op == "BitAnd":
            return BV(x & y, sg)
        if op == "BitOr":
            return BV(x | y, sg)
        if op == "BitXor":
            return BV(x ^ y, sg)
        if op in ("Shl", "ShlUnchecked"):
            return BV(x << y, sg)
        if op in ("Shr", "ShrUnchecked"):
            return BV(x >> y if sg else z3.LShR(x, y), sg)
        if op == "Rem":
            return BV(z3.SRem(x, y) if sg else z3.URem(x, y), sg)
        if op == "Div":
            return BV(x / y if sg else z3.UDiv(x, y), sg)
        if op in ("AddWithOverflow", "SubWithOverflow"):
            w = x.size()
            if op == "AddWithOverflow":
                r = x + y
                ov = z3.Not(z3.BVAddNoOverflow(x, y, sg)) if not sg else z3.Or(z3.Not(z3.BVAddNoOverflow(x, y, True)), z3.Not(z3.BVAddNoUnderflow(x, y)))
            else:
                r = x - y
                ov = z3.Not(z3.BVSubNoUnderflow(x, y, sg)) if not sg else z3.Or(z3.Not(z3.BVSubNoOverflow(x, y)), z3.Not(z3.BVSubNoUnderflow(x, y, True)))
            return Agg({0: BV(r, sg), 1: BV(z3.If(ov, bvconst(1, 1), bvconst(0, 1)))}, "tuple")
        raise MirError("binop " + op)


class AggView:
    __slots__ = ("agg", "variant")

    def __init__(self, agg, variant):
        self.agg, self.variant = agg, variant


class OpaqueDeref(Exception):
    pass


class SharedAccess(Exception):
    def __init__(self, kind, obj, path):
        self.kind, self.obj, self.path = kind, obj, path


def normalise_path(path):
    out = []
    for k in path:
        if isinstance(k, tuple) and k[0] == "v":
            out.append(k[1])
        else:
            out.append(k)
    return tuple(out)


def clone_env(env):
    return {k: clone_val(v) for k, v in env.items()}


def clone_val(v):
    if isinstance(v, Agg):
        return Agg({k: clone_val(x) for k, x in v.f.items()}, v.tname)
    return v


# ====================================================================== building the automaton
class _AtomicRe:
    """atomic_xxx::<T, [U,] Ordering[, Ordering]>: value type = first generic, orderings = the generics that are orderings"""
    RE = re.compile(r"(?:core::intrinsics::)?(atomic_\w+)::<(.*)>$")

    def match(self, s):
        m = self.RE.match(s)
        if not m:
            return None
        gen = [g.strip().split("::")[-1] for g in m.group(2).split(",")]
        ords = [g for g in gen if g in ORDERINGS]
        if gen[0] not in WIDTH or (not ords and m.group(1) not in ()):
            return None

        class R:
            def groups(self_inner):
                return (m.group(1), gen[0], ords[0] if ords else None, ords[1] if len(ords) > 1 else None)
        return R()


ATOMIC_RE = _AtomicRe()
CASFN_RE = re.compile(r"atomic::atomic_compare_exchange(_weak)?::<(\w+)>$")
NOOP_CALLS = ("core::hint::spin_loop", "spin_loop", "core::arch::x86_64::_mm_pause", "_mm_pause", "sse2::pause", "cold_path",
              "core::intrinsics::cold_path", "std::intrinsics::cold_path", "core::hint::black_box")
GUARD_TYPES = ("MutexGuard", "RwLockReadGuard", "RwLockWriteGuard")


def walk_leaves(v, path=()):
    if isinstance(v, Agg):
        for k in sorted(v.f, key=str):
            yield from walk_leaves(v.f[k], path + (k,))
    else:
        yield path, v


def path_str(path):
    out = []
    for k in path:
        if isinstance(k, tuple):
            out.append("%s.%s" % (k[0], k[1]))
        else:
            out.append(str(k))
    return "".join("." + x for x in out)


def Thread_build(self, max_block_steps=400):
    entry_fn = None
    for m in self.modules:
        if self.entry in m.names():
            entry_fn = m.get(self.entry)
            break
    if entry_fn is None:
        raise MirError("entry function %s not found" % self.entry)
    env = {}
    for (pname, _), val in zip(entry_fn.params, self.entry_args):
        env[pname] = val
    f0 = Frame(entry_fn, "bb0", 0, env, None, None, "")
    self.functions_used.add(entry_fn.name)
    # start pseudo control point
    start = self._intern_cp([f0], VisibleOp("start"))
    work = [start]
    done = set()
    while work:
        c = work.pop()
        if c in done:
            continue
        done.add(c)
        paths = self._bigstep(c, max_block_steps)
        self.paths[c] = paths
        for p in paths:
            if p.nxt is not None and p.nxt not in done:
                work.append(p.nxt)
    return self


def _frames_key(self, frames, op):
    parts = []
    for i, f in enumerate(frames):
        leaves = []
        for local in sorted(f.env):
            for path, v in walk_leaves(f.env[local]):
                if isinstance(v, Ptr):
                    leaves.append("%s%s=P(%s,%s)" % (local, path_str(path), v.obj, v.path))
                elif isinstance(v, BV):
                    s = z3.simplify(v.e)
                    if z3.is_bv_value(s):
                        leaves.append("%s%s=%d:%d" % (local, path_str(path), s.as_long(), s.size()))
                    else:
                        leaves.append("%s%s:%d" % (local, path_str(path), v.e.size()))
                else:
                    leaves.append("%s%s=O" % (local, path_str(path)))
        parts.append("%s|%s|%d|%s|%s|%s" % (f.fn.name, f.bb, f.idx, f.site, "R" if f.released else "", ";".join(leaves)))
    return (op.kind if op.kind in ("start", "end") else "op") + "##" + "##".join(parts)


def _intern_cp(self, frames, op):
    key = _frames_key(self, frames, op)
    if key in self.cps:
        return self.cps[key]
    idx = len(self.cp_frames)
    self.cps[key] = idx
    self.cp_frames.append(frames)
    self.cp_op.append(op)
    self.paths.append(None)
    held = set()
    released = set(f.drops_guard for f in frames if f.drops_guard is not None and f.released)
    for fi, f in enumerate(frames):
        for local, v in f.env.items():
            if (fi, local) in released:
                continue   # its Drop::drop already executed the releasing atomic write
            for t in agg_types(v):
                for g in GUARD_TYPES:
                    if re.search(r"\b%s\b" % g, t):
                        held.add(g)
    self.holding.append(held)
    if op.kind == "end":
        self.END = idx
    return idx


def agg_types(v):
    if isinstance(v, Agg):
        yield v.tname
        for x in v.f.values():
            yield from agg_types(x)


def _arrive(self, ex, op_kind="op"):
    """ex stands right before a visible instruction (or at thread end): turn its scalar leaves into state variables"""
    updates = {}
    frames = []
    for i, f in enumerate(ex.frames):
        env = {}
        for local, v in f.env.items():
            env[local] = self._abstract(i, f, local, (), v, updates)
        frames.append(f.copy(env))
    op = VisibleOp("end") if op_kind == "end" else VisibleOp("op")
    nxt = _intern_cp(self, frames, op)
    return Path(ex.cond, nxt, updates, None, ex.notes)


def _abstract(self, i, f, local, path, v, updates):
    if isinstance(v, Agg):
        return Agg({k: _abstract(self, i, f, local, path + (k,), x, updates) for k, x in v.f.items()}, v.tname)
    if isinstance(v, BV):
        s = z3.simplify(v.e)
        if z3.is_bv_value(s):
            return BV(s, v.signed)
        nm = "f%d.%s.%s%s" % (i, short(f.fn.name) + f.site, local, path_str(path))
        sv = self.svar(nm, v.e.size())
        if not z3.eq(s, sv):
            updates[sv] = s
        else:
            updates.setdefault(sv, sv)
        return BV(sv, v.signed)
    return v


def _feasible(cond):
    s = z3.Solver()
    s.set("timeout", 2000)
    s.add(cond)
    return s.check() != z3.unsat


def _bigstep(self, c, max_steps):
    op = self.cp_op[c]
    if op.kind == "end":
        return []
    import copy
    frames = [f.copy(clone_env(f.env)) for f in self.cp_frames[c]]
    ex = Exec(self, frames, z3.BoolVal(True))
    if op.kind != "start":
        real = self._do_visible(ex)
        self.cp_op[c] = real
    out = []
    work = [ex]
    steps = 0
    while work:
        e = work.pop()
        while True:
            steps += 1
            if steps > max_steps * 50:
                raise MirError("big step does not reach a visible operation (loop without visible op?) in %s" % e.top.fn.name)
            r = self._step(e)
            if r is None:
                continue
            kind = r[0]
            if kind == "arrive":
                out.append(_arrive(self, e))
                break
            if kind == "end":
                out.append(_arrive(self, e, "end"))
                break
            if kind == "dead":
                break
            if kind == "panic":
                out.append(Path(e.cond, None, {}, r[1], e.notes))
                break
            if kind == "fork":
                for e2 in r[1]:
                    if _feasible(e2.cond):
                        work.append(e2)
                break
    return out


def _do_visible(self, ex):
    """execute the visible instruction ex stands at; returns its descriptor (args as z3 terms over state variables)"""
    f = ex.top
    stmts, term = f.fn.blocks[f.bb]
    if f.idx < len(stmts):
        st = stmts[f.idx]
        # non-atomic access to shared data
        try:
            ex.eval_rvalue(st.rv, "") if st.kind == "assign" else None
            val_ok = True
        except SharedAccess as sa:
            val_ok = False
            loc = self.location(sa.obj, sa.path)
            tw = None
            dest_ty = f.fn.locals.get(st.place.local, "")
            w = (type_width(dest_ty) or (32, False))[0]
            ex.write_place(st.place, BV(self.rsym("data%d" % w, w)))
            f.idx += 1
            return VisibleOp("nread", loc=loc)
        try:
            ex.write_place(st.place, ex.eval_rvalue(st.rv, ""))
        except SharedAccess as sa:
            loc = self.location(sa.obj, sa.path)
            f.idx += 1
            return VisibleOp("nwrite", loc=loc)
        raise MirError("control point at a statement that is not a shared access: " + st.text)
    if term.kind == "call":
        m = ATOMIC_RE.match(term.func)
        if m:
            name, ty, o1, o2 = m.groups()
            w = WIDTH[ty]
            args = [ex.operand(a) for a in term.args]
            p = args[0]
            if not isinstance(p, Ptr):
                raise MirError("atomic op on a non-pointer")
            loc = self.location(p.obj, p.path)
            old = BV(self.rsym("old%d" % w, w))
            d = dict(loc=loc, name=name, order=o1, order_fail=o2, width=w)
            if name == "atomic_load":
                ex.write_place(term.dest, old)
            elif name == "atomic_store":
                d["val"] = ex.as_bv(args[1]).e
                ex.write_place(term.dest, UNIT)
            elif name in ("atomic_xchg", "atomic_xadd", "atomic_xsub", "atomic_and", "atomic_or", "atomic_xor", "atomic_nand",
                          "atomic_max", "atomic_min", "atomic_umax", "atomic_umin"):
                d["val"] = ex.as_bv(args[1]).e
                ex.write_place(term.dest, old)
            elif name in ("atomic_cxchg", "atomic_cxchgweak"):
                d["expected"] = ex.as_bv(args[1]).e
                d["new"] = ex.as_bv(args[2]).e
                ok = BV(self.rsym("ok", 1))
                ex.write_place(term.dest, Agg({0: old, 1: ok}, "tuple"))
            else:
                raise MirError("atomic intrinsic %s not modelled" % name)
            f.bb, f.idx = term.target, 0
            if name != "atomic_load":
                for fr in ex.frames:
                    if fr.drops_guard is not None:
                        fr.released = True
            return VisibleOp("atomic", **d)
        mc = CASFN_RE.search(term.func)
        if mc:
            # core's non-inlined wrapper: (dst, old, new, success: Ordering, failure: Ordering) -> Result<T, T>
            w = WIDTH[mc.group(2)]
            args = [ex.operand(a) for a in term.args[:3]]
            o1 = term.args[3].const.split("::")[-1]
            o2 = term.args[4].const.split("::")[-1]
            if o1 not in ORDERINGS or o2 not in ORDERINGS:
                raise MirError("orderings of %s are not constants" % term.func)
            p = args[0]
            loc = self.location(p.obj, p.path)
            old = BV(self.rsym("old%d" % w, w))
            ok = self.rsym("ok", 1)
            res = Agg({"disc": BV(z3.If(ok == 1, bvconst(0, 64), bvconst(1, 64)), True), ("Ok", 0): old, ("Err", 0): old}, "Result")
            ex.write_place(term.dest, res)
            f.bb, f.idx = term.target, 0
            for fr in ex.frames:
                if fr.drops_guard is not None:
                    fr.released = True
            return VisibleOp("atomic", loc=loc, name="atomic_cxchgweak" if mc.group(1) else "atomic_cxchg", order=o1, order_fail=o2,
                             width=w, expected=ex.as_bv(args[1]).e, new=ex.as_bv(args[2]).e)
        if re.search(r"volatile_load::<(\w+)>$", term.func):
            p = ex.operand(term.args[0])
            loc = self.location(p.obj, p.path)
            w = WIDTH[re.search(r"volatile_load::<(\w+)>$", term.func).group(1)]
            ex.write_place(term.dest, BV(self.rsym("data%d" % w, w)))
            f.bb, f.idx = term.target, 0
            return VisibleOp("nread", loc=loc)
        raise MirError("control point at a call that is not visible: " + term.func)
    if term.kind == "asm":
        regs = {}
        outp = None
        for kind, reg, opnd, outplace in term.ops:
            if opnd is not None:
                regs[reg] = ex.operand(opnd)
            if kind == "inout":
                outp = outplace
        if "syscall" not in term.template:
            raise MirError("asm other than syscall: " + term.template)
        nr = ex.as_bv(regs["ax"]).e
        nrs = z3.simplify(nr)
        if not z3.is_bv_value(nrs):
            raise MirError("syscall number is not a constant")
        res = BV(self.rsym("sys", 64))
        if outp is not None:
            ex.write_place(outp, res)
        f.bb, f.idx = term.target, 0
        d = dict(nr=nrs.as_long())
        for r in ("di", "si", "dx", "r10", "r8", "r9"):
            v = regs.get(r)
            if isinstance(v, Ptr):
                d[r] = ("loc", self.location(v.obj, v.path)) if v.obj is not None else ("null",)
            elif v is not None:
                d[r] = ("bv", ex.as_bv(v).e)
        return VisibleOp("syscall", **d)
    raise MirError("control point at an instruction that is not visible")


def location(self, obj, path):
    lay = self.cfg["layout"].get(obj)
    if lay is None:
        raise MirError("access to unknown shared object %s" % (obj,))
    best = None
    for prefix, name in lay.items():
        if tuple(path[: len(prefix)]) == tuple(prefix) and (best is None or len(prefix) > len(best[0])):
            best = (prefix, name)
    if best is None:
        raise MirError("no location for %s path %s" % (obj, path))
    return best[1]


def _step(self, e):
    f = e.top
    if f.bb.startswith("__panic__:"):
        return ("panic", f.bb[len("__panic__:"):])
    if f.bb not in f.fn.blocks:
        raise MirError("missing block %s in %s" % (f.bb, f.fn.name))
    stmts, term = f.fn.blocks[f.bb]
    if f.idx < len(stmts):
        st = stmts[f.idx]
        if st.kind == "dead":
            f.env.pop(st.place.local, None)
            f.idx += 1
            return None
        if st.kind == "assume":
            v = e.as_bv(e.operand(st.rv.a[0]))
            e.cond = z3.And(e.cond, v.e == 1)
            f.idx += 1
            return None
        try:
            val = e.eval_rvalue(st.rv, "")
            # spin-budget rewrite (design 2.2(7)): the literal spin count becomes a symbolic budget in {0,1}
            rw = self.cfg.get("spin_rewrite")
            if rw and st.rv.kind == "use" and st.rv.a[0].kind == "const" and st.rv.a[0].const == rw["literal"] \
                    and re.search(rw["function"], f.fn.name):
                b = self.csym("spin_budget", val.e.size())
                e.cond = z3.And(e.cond, z3.ULE(b, rw.get("max_budget", 1)))
                val = BV(b, val.signed)
                self.cfg.setdefault("_spin_rewritten", set()).add(f.fn.name)
            e.write_place(st.place, val)
        except SharedAccess:
            return ("arrive",)
        f.idx += 1
        return None
    k = term.kind
    if k == "goto":
        f.bb, f.idx = term.target, 0
        return None
    if k == "unreachable":
        return ("dead",)
    if k == "resume":
        return ("panic", "unwinding resumed")
    if k == "switch":
        v = e.as_bv(e.operand(term.op))
        s = z3.simplify(v.e)
        if z3.is_bv_value(s):
            val = s.as_long()
            tgt = term.otherwise
            for tv, tb in term.targets:
                if tv == val:
                    tgt = tb
            if tgt is None:
                return ("dead",)
            f.bb, f.idx = tgt, 0
            return None
        outs = []
        neg = []
        for tv, tb in term.targets:
            e2 = e.clone()
            c = v.e == z3.BitVecVal(tv, v.e.size())
            e2.cond = z3.And(e.cond, c)
            e2.top.bb, e2.top.idx = tb, 0
            outs.append(e2)
            neg.append(z3.Not(c))
        if term.otherwise is not None:
            e2 = e.clone()
            e2.cond = z3.And(e.cond, *neg)
            e2.top.bb, e2.top.idx = term.otherwise, 0
            outs.append(e2)
        return ("fork", outs)
    if k == "assert":
        v = e.as_bv(e.operand(term.op))
        good = (v.e == 0) if term.negate else (v.e == 1)
        s = z3.simplify(good)
        if z3.is_true(s):
            f.bb, f.idx = term.target, 0
            return None
        e_ok = e.clone()
        e_ok.cond = z3.And(e.cond, good)
        e_ok.top.bb, e_ok.top.idx = term.target, 0
        e_bad = e.clone()
        e_bad.cond = z3.And(e.cond, z3.Not(good))
        e_bad.top.bb, e_bad.top.idx = "__panic__:" + term.msg, 0
        return ("fork", [e_ok, e_bad])
    if k == "return":
        ret = f.env.get("_0", UNIT)
        if len(e.frames) == 1:
            f.env = {}
            return ("end",)
        e.frames.pop()
        caller = e.top
        if f.kill_on_return:
            caller.env.pop(f.kill_on_return, None)
        if f.ret_wrap == "Some":
            ret = Agg({"disc": BV(bvconst(1, 64), True), ("Some", 0): ret}, "Option")
        if f.ret_place is not None:
            e.write_place(f.ret_place, ret)
        caller.bb, caller.idx = f.ret_bb, 0
        return None
    if k == "drop":
        r = e.resolve(len(e.frames) - 1, term.place)
        if r[0] != "env":
            raise MirError("drop of shared memory")
        _, fi, local, path, ty = r
        v = e.frames[fi].env.get(local)
        for p in path:
            v = v.f.get(p) if isinstance(v, Agg) else None
        tn = v.tname if isinstance(v, Agg) else (ty or f.fn.locals.get(local, ""))
        dfn = self.find_drop(tn) if tn else None
        if dfn is None:
            if isinstance(v, Agg) and any(re.search(g, t) for t in agg_types(v) for g in GUARD_TYPES):
                raise MirError("no Drop impl found for guard type " + tn)
            if not path:
                e.frames[fi].env.pop(local, None)
            f.bb, f.idx = term.target, 0
            return None
        self.functions_used.add(dfn.name)
        is_guard = isinstance(v, Agg) and any(re.search(r"\b%s\b" % g, v.tname) for g in GUARD_TYPES)
        nf = Frame(dfn, "bb0", 0, {dfn.params[0][0]: Ptr(("frame", fi, local), path)}, None, term.target,
                   f.site + "@" + f.bb, kill_on_return=local if not path else None,
                   drops_guard=(fi, local) if is_guard else None)
        f.idx = len(stmts)  # stay at terminator; return sets caller.bb
        e.frames.append(nf)
        return None
    if k == "asm":
        return ("arrive",)
    if k == "call":
        fn = term.func
        if f.bb.startswith("__panic__"):
            return ("panic", f.bb)
        if ATOMIC_RE.match(fn) or re.search(r"volatile_load::<\w+>$", fn) or CASFN_RE.search(fn):
            return ("arrive",)
        base = re.sub(r"::<.*", "", fn)
        if base in NOOP_CALLS or base.split("::")[-1] in ("spin_loop", "_mm_pause", "pause", "cold_path"):
            self.trusted_calls.add(base)
            if term.dest is not None:
                e.write_place(term.dest, UNIT)
            f.bb, f.idx = term.target, 0
            return None
        if re.search(r"(^|::)(panic\w*|panic_fmt|unwrap_failed|expect_failed|assert_failed\w*|panic_const_\w+|slice_index_\w+|panic_bounds_check)$", base):
            return ("panic", "call to " + base)
        if base.endswith("Error::with_code") or base == "rusl::Error::with_code":
            # trusted builtin: rusl::Error { msg, code: Some(Errno(code)) }
            self.trusted_calls.add("rusl::Error::with_code")
            args = [e.operand(a) for a in term.args]
            code = e.as_bv(args[1])
            val = Agg({0: Opaque("msg"), 1: Agg({"disc": BV(bvconst(1, 64), True), ("Some", 0): Agg({0: code}, "Errno")}, "Option")}, "rusl::Error")
            e.write_place(term.dest, val)
            f.bb, f.idx = term.target, 0
            return None
        if re.search(r"NonNull::<[^>]*>::(new_unchecked|as_ptr|as_ref|as_mut)$", fn) or re.search(r"UnsafeCell::<[^>]*>::get$", fn):
            self.trusted_calls.add("NonNull/UnsafeCell pointer identity")
            v0 = e.operand(term.args[0])
            if not isinstance(v0, Ptr):
                raise MirError("pointer identity builtin on a non-pointer: " + fn)
            e.write_place(term.dest, v0)
            f.bb, f.idx = term.target, 0
            return None
        if re.match(r"core::bool::<impl bool>::then_some::<", fn):
            self.trusted_calls.add("bool::then_some")
            args = [e.operand(a) for a in term.args]
            b = e.as_bv(args[0])
            e.write_place(term.dest, Agg({"disc": BV(z3.ZeroExt(63, b.e), True), ("Some", 0): args[1]}, "Option"))
            f.bb, f.idx = term.target, 0
            return None
        if re.match(r"core::bool::<impl bool>::then::<", fn):
            self.trusted_calls.add("bool::then")
            args = [e.operand(a) for a in term.args]
            b = e.as_bv(args[0])
            m = re.search(r"\{closure@.*?([\w]+::\{closure#\d+\})\}>$", fn)
            if not m:
                raise MirError("closure of bool::then not identified: " + fn)
            cfn = None
            span = re.search(r"(\w+\.rs:\d+:\d+: \d+:\d+)", args[1].tname if isinstance(args[1], Agg) else "")
            for mod in self.modules:
                for kname in mod.names():
                    if kname.endswith("::" + m.group(1)):
                        _, params, _ = mod.signature(kname)
                        if span is None or span.group(1) in params:
                            cfn = mod.get(kname)
            if cfn is None:
                raise MirError("closure body %s not in the MIR dumps" % m.group(1))
            self.functions_used.add(cfn.name)
            e_no = e.clone()
            e_no.cond = z3.And(e.cond, b.e == 0)
            e_no.write_place(term.dest, Agg({"disc": BV(bvconst(0, 64), True)}, "Option"))
            e_no.top.bb, e_no.top.idx = term.target, 0
            e_yes = e.clone()
            e_yes.cond = z3.And(e.cond, b.e == 1)
            fy = e_yes.top
            fy.idx = len(stmts)
            e_yes.frames.append(Frame(cfn, "bb0", 0, {cfn.params[0][0]: args[1]}, term.dest, term.target, fy.site + "@" + fy.bb,
                                      ret_wrap="Some"))
            return ("fork", [e_no, e_yes])
        callee = self.find_function(fn, term.args)
        if callee is None:
            raise MirError("call to a function that is neither in the MIR dumps nor a trusted intrinsic: " + fn)
        self.functions_used.add(callee.name)
        args = [e.operand(a) for a in term.args]
        env = {}
        for (pname, _), a in zip(callee.params, args):
            env[pname] = a
        f.idx = len(stmts)
        e.frames.append(Frame(callee, "bb0", 0, env, term.dest, term.target, f.site + "@" + f.bb))
        if len(e.frames) > 12:
            raise MirError("call depth > 12 (recursion?) at " + fn)
        return None
    raise MirError("terminator kind " + k)


Thread.build = Thread_build
Thread._intern_cp = _intern_cp
Thread._bigstep = _bigstep
Thread._do_visible = _do_visible
Thread._step = _step
Thread._abstract = _abstract
Thread.location = location


# ====================================================================== liveness of MIR locals (prunes dead state)
def _place_roots_rv(rv, uses, addr):
    k = rv.kind
    def op(o):
        if o.kind != "const":
            uses.add(o.place.local)
    if k in ("use",):
        op(rv.a[0])
    elif k == "cast":
        op(rv.a[0])
    elif k == "binop":
        op(rv.a[1]); op(rv.a[2])
    elif k == "unop":
        op(rv.a[1])
    elif k == "discriminant":
        uses.add(rv.a[0].local)
    elif k == "addr":
        pl = rv.a[0]
        uses.add(pl.local)
        if not any(p[0] == "deref" for p in pl.proj):
            addr.add(pl.local)
    elif k == "tuple":
        for o in rv.a[0]:
            op(o)
    elif k == "struct":
        for _, o in rv.a[1]:
            op(o)
    elif k == "variant":
        for o in rv.a[2]:
            op(o)


def compute_liveness(fn):
    if getattr(fn, "_live", None) is not None:
        return fn._live
    addr = set()
    succ = {}
    use_def = {}
    for bb, (stmts, term) in fn.blocks.items():
        seq = []
        for st in stmts:
            u, d = set(), set()
            if st.kind == "assign":
                _place_roots_rv(st.rv, u, addr)
                if st.place.proj:
                    u.add(st.place.local)
                else:
                    d.add(st.place.local)
            elif st.kind == "assume":
                _place_roots_rv(st.rv, u, addr)
            elif st.kind == "dead":
                d.add(st.place.local)
            seq.append((u, d))
        u, d, nxt = set(), set(), []
        k = term.kind
        if k == "goto":
            nxt = [term.target]
        elif k == "switch":
            if term.op.kind != "const":
                u.add(term.op.place.local)
            nxt = [t for _, t in term.targets] + ([term.otherwise] if term.otherwise else [])
        elif k == "assert":
            if term.op.kind != "const":
                u.add(term.op.place.local)
            nxt = [term.target]
        elif k == "call":
            for a in term.args:
                if a.kind != "const":
                    u.add(a.place.local)
            if term.dest.proj:
                u.add(term.dest.local)
            else:
                d.add(term.dest.local)
            nxt = [term.target] if term.target else []
        elif k == "asm":
            for kind, reg, opnd, outp in term.ops:
                if opnd is not None and opnd.kind != "const":
                    u.add(opnd.place.local)
                if outp is not None and not outp.proj:
                    d.add(outp.local)
            nxt = [term.target] if term.target else []
        elif k == "drop":
            u.add(term.place.local)
            addr.add(term.place.local)
            nxt = [term.target]
        elif k == "return":
            u.add("_0")
        seq.append((u, d))
        use_def[bb] = seq
        succ[bb] = [n for n in nxt if n in fn.blocks]
    live_in = {bb: set() for bb in fn.blocks}
    changed = True
    while changed:
        changed = False
        for bb in fn.blocks:
            live = set()
            for s in succ[bb]:
                live |= live_in[s]
            for u, d in reversed(use_def[bb]):
                live = (live - d) | u
            if live != live_in[bb]:
                live_in[bb] = live
                changed = True
    fn._live = (live_in, use_def, succ, addr)
    return fn._live


def live_before(fn, bb, idx):
    live_in, use_def, succ, addr = compute_liveness(fn)
    if bb not in use_def:
        return None
    live = set()
    for s in succ[bb]:
        live |= live_in[s]
    seq = use_def[bb]
    for i in range(len(seq) - 1, idx - 1, -1):
        u, d = seq[i]
        live = (live - d) | u
    return live | addr


def live_after_call(fn, bb):
    """locals live in a caller frame while its callee runs (the call's own operands are already consumed)"""
    live_in, use_def, succ, addr = compute_liveness(fn)
    stmts, term = fn.blocks[bb]
    live = set()
    for s in succ[bb]:
        live |= live_in[s]
    u, d = use_def[bb][-1]
    return (live - d) | addr | (set([term.dest.local]) if term.kind == "call" and term.dest.proj else set())


_old_arrive = _arrive


def _arrive_pruned(self, ex, op_kind="op"):
    n = len(ex.frames)
    for i, f in enumerate(ex.frames):
        if f.bb.startswith("__panic__") or f.bb not in f.fn.blocks:
            continue
        if i == n - 1:
            live = live_before(f.fn, f.bb, f.idx) if op_kind != "end" else set()
        else:
            live = live_after_call(f.fn, f.bb)
        if live is None:
            continue
        # locals referenced by pointers held anywhere stay
        pinned = set()
        for g in ex.frames:
            for v in g.env.values():
                for _, leaf in walk_leaves(v):
                    if isinstance(leaf, Ptr) and isinstance(leaf.obj, tuple) and leaf.obj[0] == "frame" and leaf.obj[1] == i:
                        pinned.add(leaf.obj[2])
        for local in list(f.env):
            if local not in live and local not in pinned:
                del f.env[local]
    return _old_arrive(self, ex, op_kind)


_arrive = _arrive_pruned
