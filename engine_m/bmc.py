"""Bounded model checking of thread automata (built by interp.py from MIR) over all schedules of <= K visible steps.
Environment model (trusted, stated in evidence): futex wait/wake, weak-CAS spurious failure, sequentially consistent
interleaving plus happens-before tracking with vector clocks."""
import time
import z3

from mir import MirError

EAGAIN, EINTR = 11, 4
ACQ = ("Acquire", "AcqRel", "SeqCst")
REL = ("Release", "AcqRel", "SeqCst")


def bv(v, w):
    return z3.BitVecVal(v, w)


class System:
    def __init__(self, threads, atomic_locs, data_locs, K, guard_kinds, try_only=None, held_pred=None, init_mem=None,
                 extra_invariants=None, track_hb=True):
        self.track_hb = track_hb
        self.threads = threads
        self.n = len(threads)
        self.atomic_locs = list(atomic_locs)
        self.data_locs = list(data_locs)
        self.K = K
        self.guard_kinds = guard_kinds            # {'exclusive': [type names], 'shared': [type names]}
        self.try_only = try_only or {}            # tid -> True: program uses try_* only
        self.held_pred = held_pred                # function(loc, old_value_expr) -> z3 Bool "lock was held / not admissible"
        self.init_mem = init_mem or {}
        self.cw = max(2, (K + 2).bit_length())
        self.sw = max(1, (self.n + 1).bit_length())
        self.pcw = max(1, max(len(t.cp_frames) for t in threads).bit_length())
        self.vars = []                            # per step dict
        self.choices = []
        self.trans = []
        self.bad = {"mutex": [], "race": [], "deadlock": [], "panic": [], "try": []}
        self.stats = {"paths": sum(len(p or []) for t in threads for p in t.paths), "cps": sum(len(t.cp_frames) for t in threads)}

    # ------------------------------------------------------------------ variables
    def mk_state(self, k):
        s = {}
        for t in self.threads:
            i = t.tid
            s[("pc", i)] = z3.BitVec("pc%d@%d" % (i, k), self.pcw)
            s[("parked", i)] = z3.Bool("parked%d@%d" % (i, k))
            s[("woken", i)] = z3.Bool("woken%d@%d" % (i, k))
            s[("wloc", i)] = z3.BitVec("wloc%d@%d" % (i, k), 3)
            s[("wpriv", i)] = z3.Bool("wpriv%d@%d" % (i, k))
            s[("acq", i)] = z3.Bool("acq%d@%d" % (i, k))
            s[("saw", i)] = z3.Bool("saw%d@%d" % (i, k))
            for name, v in t.state_vars.items():
                s[("sv", name)] = z3.BitVec("%s@%d" % (name, k), v.size())
            for u in range(self.n):
                s[("vc", i, u)] = z3.BitVec("vc%d_%d@%d" % (i, u, k), self.cw)
        for l in self.atomic_locs:
            s[("mem", l)] = z3.BitVec("mem_%s@%d" % (l, k), 32)
            for u in range(self.n):
                s[("rvc", l, u)] = z3.BitVec("rvc_%s_%d@%d" % (l, u, k), self.cw)
        for l in self.data_locs:
            s[("wtid", l)] = z3.BitVec("wtid_%s@%d" % (l, k), self.sw)
            s[("wclk", l)] = z3.BitVec("wclk_%s@%d" % (l, k), self.cw)
            for u in range(self.n):
                s[("rclk", l, u)] = z3.BitVec("rclk_%s_%d@%d" % (l, u, k), self.cw)
        return s

    def mk_choice(self, k):
        c = {"sched": z3.BitVec("sched@%d" % k, self.sw), "weakfail": z3.Bool("weakfail@%d" % k),
             "spur": z3.Bool("spur@%d" % k), "eintr": z3.Bool("eintr@%d" % k)}
        for u in range(self.n):
            c[("pick", u)] = z3.Bool("pick%d@%d" % (u, k))
        for t in self.threads:
            for name, v in t.choice_syms.items():
                c[("ch", name)] = z3.BitVec("%s@%d" % (name, k), v.size())
            for name, v in t.result_syms.items():
                if ".data" in name:
                    c[("res", name)] = z3.BitVec("%s@%d" % (name, k), v.size())
        return c

    def init(self, s):
        cs = []
        for t in self.threads:
            i = t.tid
            pc0 = 0
            p0 = t.paths[0] or []
            if len(p0) == 1 and p0[0].nxt is not None and not p0[0].panic and z3.is_true(z3.simplify(p0[0].cond)) \
                    and all(z3.eq(k_, v_) for k_, v_ in p0[0].updates.items()):
                pc0 = p0[0].nxt
            cs += [s[("pc", i)] == pc0, z3.Not(s[("parked", i)]), z3.Not(s[("woken", i)]), z3.Not(s[("acq", i)]), z3.Not(s[("saw", i)])]
            for u in range(self.n):
                cs.append(s[("vc", i, u)] == 0)
        for l in self.atomic_locs:
            cs.append(s[("mem", l)] == self.init_mem.get(l, 0))
            for u in range(self.n):
                cs.append(s[("rvc", l, u)] == 0)
        for l in self.data_locs:
            cs.append(s[("wtid", l)] == self.n)
            cs.append(s[("wclk", l)] == 0)
            for u in range(self.n):
                cs.append(s[("rclk", l, u)] == 0)
        return cs

    # ------------------------------------------------------------------ one step
    def step(self, k, s, c):
        """returns (constraints, nxt_state_exprs, bad flags)"""
        n = self.n
        upd = {key: [] for key in s}     # key -> list of (selector, expr)
        any_sel = []
        cons = []
        bad = {"race": [], "panic": []}
        vmax = lambda a, b: z3.If(z3.UGT(a, b), a, b)
        for t in self.threads:
            i = t.tid
            me = c["sched"] == i
            sub_state = [(v, s[("sv", name)]) for name, v in t.state_vars.items()]
            sub_choice = [(v, c[("ch", name)]) for name, v in t.choice_syms.items()]
            for ci, op in enumerate(t.cp_op):
                paths = t.paths[ci]
                if op.kind == "end" or paths is None:
                    continue
                at = z3.And(me, s[("pc", i)] == ci)
                res_sub = []
                glob = []          # (selector-extra, key, expr) global updates common to all paths of this cp
                enabled = z3.BoolVal(True)
                extra_paths_guard = z3.BoolVal(True)   # False when the op does not complete in this step (parking)
                park_now = None
                # vector clock of t after this event
                vc_new = {u: s[("vc", i, u)] for u in range(n)}
                joins = None
                if op.kind == "start":
                    enabled = z3.Not(s[("parked", i)])
                elif op.kind == "atomic":
                    l = op.loc
                    old = s[("mem", l)]
                    w = op.width
                    if w != 32:
                        raise MirError("atomic width %d not modelled" % w)
                    acquire = z3.BoolVal(op.order in ACQ)
                    release = z3.BoolVal(op.order in REL)
                    writes = z3.BoolVal(True)
                    is_rmw = True
                    newv = old
                    okv = None
                    nm = op.name
                    g = lambda e: z3.substitute(e, sub_state + sub_choice) if z3.is_expr(e) else bv(e, 32)
                    if nm == "atomic_load":
                        writes = z3.BoolVal(False)
                    elif nm == "atomic_store":
                        newv = g(op.val); is_rmw = False
                    elif nm == "atomic_xchg":
                        newv = g(op.val)
                    elif nm == "atomic_xadd":
                        newv = old + g(op.val)
                    elif nm == "atomic_xsub":
                        newv = old - g(op.val)
                    elif nm == "atomic_or":
                        newv = old | g(op.val)
                    elif nm == "atomic_and":
                        newv = old & g(op.val)
                    elif nm in ("atomic_cxchg", "atomic_cxchgweak"):
                        eq = old == g(op.expected)
                        okb = z3.And(eq, z3.Not(c["weakfail"])) if nm == "atomic_cxchgweak" else eq
                        okv = z3.If(okb, bv(1, 1), bv(0, 1))
                        writes = okb
                        newv = g(op.new)
                        acquire = z3.If(okb, z3.BoolVal(op.order in ACQ), z3.BoolVal(op.order_fail in ACQ))
                        release = z3.And(okb, z3.BoolVal(op.order in REL))
                    else:
                        raise MirError("atomic " + nm)
                    for name, v in t.result_syms.items():
                        if name.endswith(".old32"):
                            res_sub.append((v, old))
                        elif name.endswith(".ok") and okv is not None:
                            res_sub.append((v, okv))
                    # happens-before
                    for u in range(n):
                        vc_new[u] = z3.If(acquire, vmax(s[("vc", i, u)], s[("rvc", l, u)]), s[("vc", i, u)])
                    vc_new[i] = vc_new[i] + 1
                    glob.append((("mem", l), z3.If(writes, newv, old)))
                    for u in range(n):
                        r_old = s[("rvc", l, u)]
                        if is_rmw:
                            r_new = z3.If(z3.And(writes, release), vmax(r_old, vc_new[u]), r_old)
                        else:
                            r_new = z3.If(release, vc_new[u], bv(0, self.cw))
                        glob.append((("rvc", l, u), r_new))
                    if self.held_pred is not None:
                        glob.append((("saw", i), z3.Or(s[("saw", i)], self.held_pred(i, l, old))))
                    enabled = z3.Not(s[("parked", i)])
                elif op.kind in ("nread", "nwrite"):
                    l = op.loc
                    wt, wc = s[("wtid", l)], s[("wclk", l)]
                    other_writer = z3.And(wt != n, wt != i)
                    my_view = bv(0, self.cw)
                    for u in range(n):
                        my_view = z3.If(wt == u, s[("vc", i, u)], my_view)
                    race = z3.And(other_writer, z3.UGT(wc, my_view))
                    if op.kind == "nwrite":
                        for u in range(n):
                            if u != i:
                                race = z3.Or(race, z3.UGT(s[("rclk", l, u)], s[("vc", i, u)]))
                    vc_new[i] = vc_new[i] + 1
                    if op.kind == "nwrite":
                        glob.append((("wtid", l), bv(i, self.sw)))
                        glob.append((("wclk", l), vc_new[i]))
                        for u in range(n):
                            glob.append((("rclk", l, u), bv(0, self.cw)))
                    else:
                        glob.append((("rclk", l, i), vc_new[i]))
                    for name, v in t.result_syms.items():
                        if ".data" in name:
                            res_sub.append((v, c[("res", name)]))
                    if self.track_hb:
                        bad["race"].append(z3.And(at, z3.Not(s[("parked", i)]), race))
                    enabled = z3.Not(s[("parked", i)])
                elif op.kind == "syscall":
                    if op.nr != 202:
                        raise MirError("system call %d has no model" % op.nr)
                    if op.di[0] != "loc":
                        raise MirError("futex on an address that is not a known location")
                    l = op.di[1]
                    li = self.atomic_locs.index(l)
                    g = lambda e: z3.substitute(e, sub_state + sub_choice)
                    si = g(op.si[1]) if op.si[0] == "bv" else None
                    dx = g(op.dx[1]) if op.dx[0] == "bv" else None
                    sis = z3.simplify(si)
                    if not z3.is_bv_value(sis):
                        raise MirError("futex op code is not constant")
                    code = sis.as_long()
                    fop, priv = code & 0x7F, bool(code & 128)
                    vc_new[i] = vc_new[i] + 1
                    if fop == 0:    # FUTEX_WAIT
                        val = z3.Extract(31, 0, dx)
                        mismatch = s[("mem", l)] != val
                        p1 = z3.Not(s[("parked", i)])
                        p2 = s[("parked", i)]
                        ret = z3.If(p1, bv((-EAGAIN) & (2 ** 64 - 1), 64),
                                    z3.If(s[("woken", i)], bv(0, 64), z3.If(c["eintr"], bv((-EINTR) & (2 ** 64 - 1), 64), bv(0, 64))))
                        completes = z3.Or(z3.And(p1, mismatch), z3.And(p2, z3.Or(s[("woken", i)], c["spur"])))
                        parks = z3.And(p1, z3.Not(mismatch))
                        enabled = z3.Or(p1, z3.And(p2, z3.Or(s[("woken", i)], c["spur"])))
                        extra_paths_guard = completes
                        park_now = (parks, li, priv)
                        for name, v in t.result_syms.items():
                            if name.endswith(".sys"):
                                res_sub.append((v, ret))
                    elif fop == 1:  # FUTEX_WAKE
                        nwake = z3.Extract(31, 0, dx)
                        cands, picks = [], []
                        for u in range(n):
                            if u == i:
                                cons.append(z3.Implies(at, z3.Not(c[("pick", u)])))
                                continue
                            cand = z3.And(s[("parked", u)], z3.Not(s[("woken", u)]), s[("wloc", u)] == li,
                                          s[("wpriv", u)] == priv)
                            cons.append(z3.Implies(z3.And(at, c[("pick", u)]), cand))
                            cands.append(cand); picks.append(c[("pick", u)])
                        cnt = sum([z3.If(p, bv(1, 32), bv(0, 32)) for p in picks], bv(0, 32))
                        # woken count <= requested, and maximal (the kernel wakes min(n, waiters))
                        cons.append(z3.Implies(at, z3.Or(nwake < 0, z3.ULE(cnt, nwake)) if False else z3.ULE(cnt, z3.If(nwake < 0, bv(0, 32), nwake))))
                        all_picked = z3.And([z3.Implies(cd, pk) for cd, pk in zip(cands, picks)]) if cands else z3.BoolVal(True)
                        cons.append(z3.Implies(at, z3.Or(all_picked, cnt == z3.If(nwake < 0, bv(0, 32), nwake))))
                        for u in range(n):
                            if u != i:
                                glob.append((("woken", u), z3.Or(s[("woken", u)], c[("pick", u)])))
                        for name, v in t.result_syms.items():
                            if name.endswith(".sys"):
                                res_sub.append((v, z3.ZeroExt(32, cnt)))
                        enabled = z3.Not(s[("parked", i)])
                    else:
                        raise MirError("futex operation %d has no model" % fop)
                else:
                    raise MirError("op kind " + op.kind)
                sel_cp = z3.And(at, enabled)
                # global effects of the op (independent of the local path)
                full = z3.And(sel_cp, extra_paths_guard) if park_now is None else sel_cp
                for key, e in glob:
                    if not self.track_hb and key[0] in ("rvc", "wtid", "wclk", "rclk"):
                        continue
                    upd[key].append((z3.And(sel_cp, extra_paths_guard), e))
                if self.track_hb:
                    for u in range(n):
                        upd[("vc", i, u)].append((z3.And(sel_cp, extra_paths_guard), vc_new[u]))
                if park_now is not None:
                    parks, li, priv = park_now
                    upd[("parked", i)].append((z3.And(sel_cp, parks), z3.BoolVal(True)))
                    upd[("woken", i)].append((z3.And(sel_cp, parks), z3.BoolVal(False)))
                    upd[("wloc", i)].append((z3.And(sel_cp, parks), bv(li, 3)))
                    upd[("wpriv", i)].append((z3.And(sel_cp, parks), z3.BoolVal(priv)))
                    upd[("parked", i)].append((z3.And(sel_cp, extra_paths_guard), z3.BoolVal(False)))
                    upd[("woken", i)].append((z3.And(sel_cp, extra_paths_guard), z3.BoolVal(False)))
                    any_sel.append(z3.And(sel_cp, parks))
                subs = sub_state + sub_choice + res_sub
                for p in paths:
                    cond = z3.substitute(p.cond, subs)
                    sel = z3.And(sel_cp, extra_paths_guard, cond)
                    if p.panic:
                        bad["panic"].append(sel)
                        continue
                    any_sel.append(sel)
                    upd[("pc", i)].append((sel, bv(p.nxt, self.pcw)))
                    for sv, e in p.updates.items():
                        name = str(sv)
                        upd[("sv", name)].append((sel, z3.substitute(e, subs)))
                    if t.holding[p.nxt]:
                        upd[("acq", i)].append((sel, z3.BoolVal(True)))
        idle = c["sched"] == n
        cons.append(z3.Or(idle, z3.Or(any_sel) if any_sel else z3.BoolVal(False)))
        cons.append(z3.ULE(c["sched"], n))
        nxt = {}
        for key, lst in upd.items():
            e = s[key]
            for sel, val in reversed(lst):
                e = z3.If(sel, val, e)
            nxt[key] = e
        return cons, nxt, bad

    # ------------------------------------------------------------------ state predicates
    def pred_done(self, s, t):
        return s[("pc", t.tid)] == t.END if t.END is not None else z3.BoolVal(False)

    def pred_holding(self, s, t, kinds):
        cps = [ci for ci, h in enumerate(t.holding) if h & set(kinds)]
        return z3.Or([s[("pc", t.tid)] == ci for ci in cps]) if cps else z3.BoolVal(False)

    def bad_mutex(self, s):
        ex, sh = self.guard_kinds["exclusive"], self.guard_kinds.get("shared", [])
        out = []
        for a in self.threads:
            for b in self.threads:
                if a.tid == b.tid:
                    continue
                out.append(z3.And(self.pred_holding(s, a, ex), self.pred_holding(s, b, ex + sh)))
        return z3.Or(out) if out else z3.BoolVal(False)

    def bad_deadlock(self, s):
        some_left = z3.Or([z3.Not(self.pred_done(s, t)) for t in self.threads])
        stuck = z3.And([z3.Or(self.pred_done(s, t), z3.And(s[("parked", t.tid)], z3.Not(s[("woken", t.tid)]))) for t in self.threads])
        return z3.And(some_left, stuck)

    def bad_try(self, s):
        out = []
        for t in self.threads:
            if self.try_only.get(t.tid):
                out.append(z3.And(self.pred_done(s, t), z3.Not(s[("acq", t.tid)]), z3.Not(s[("saw", t.tid)])))
        return z3.Or(out) if out else z3.BoolVal(False)

    # ------------------------------------------------------------------ unrolling
    def unroll(self, symmetric_pairs=()):
        K = self.K
        self.S = [self.mk_state(0)]
        self.C = []
        cons = list(self.init(self.S[0]))
        self.badk = {k: [] for k in ("mutex", "race", "deadlock", "panic", "try")}
        for k in range(K):
            c = self.mk_choice(k)
            self.C.append(c)
            sc, nxt, bad = self.step(k, self.S[k], c)
            cons += sc
            s2 = self.mk_state(k + 1)
            for key, e in nxt.items():
                cons.append(s2[key] == e)
            self.S.append(s2)
            self.badk["race"].append(z3.Or(bad["race"]) if bad["race"] else z3.BoolVal(False))
            self.badk["panic"].append(z3.Or(bad["panic"]) if bad["panic"] else z3.BoolVal(False))
        for k in range(K + 1):
            self.badk["mutex"].append(self.bad_mutex(self.S[k]))
            self.badk["deadlock"].append(self.bad_deadlock(self.S[k]))
            self.badk["try"].append(self.bad_try(self.S[k]))
        # idle (nobody moves) steps only as a suffix: they add no behaviour and bloat the search otherwise
        for k in range(K - 1):
            cons.append(z3.Implies(self.C[k]["sched"] == self.n, self.C[k + 1]["sched"] == self.n))
        # symmetry breaking: identical programs -> the lower tid is scheduled first
        for a, b in symmetric_pairs:
            first_a = [z3.And(self.C[k]["sched"] == a, z3.And([self.C[j]["sched"] != a for j in range(k)])) for k in range(K)]
            for k in range(K):
                cons.append(z3.Implies(self.C[k]["sched"] == b, z3.Or([self.C[j]["sched"] == a for j in range(k)])))
        self.cons = cons
        return cons

    def solve(self, goal, timeout_s):
        t0 = time.time()
        tac = z3.Then("simplify", "propagate-values", "solve-eqs", "bit-blast", "sat")
        sol = tac.solver()
        sol.set("timeout", int(timeout_s * 1000))
        sol.add(self.cons)
        sol.add(goal)
        r = sol.check()
        dt = time.time() - t0
        model = sol.model() if r == z3.sat else None
        return str(r), dt, model

    def all_done(self):
        return z3.And([self.pred_done(self.S[self.K], t) for t in self.threads])

    def trace(self, model):
        out = []
        for k in range(self.K):
            sc = model.eval(self.C[k]["sched"], model_completion=True).as_long()
            if sc >= self.n:
                continue
            t = self.threads[sc]
            pc = model.eval(self.S[k][("pc", sc)], model_completion=True).as_long()
            pc2 = model.eval(self.S[k + 1][("pc", sc)], model_completion=True).as_long()
            parked = z3.is_true(model.eval(self.S[k][("parked", sc)], model_completion=True))
            op = t.cp_op[pc] if pc < len(t.cp_op) else None
            mem = {l: model.eval(self.S[k + 1][("mem", l)], model_completion=True).as_long() for l in self.atomic_locs}
            extra = []
            if z3.is_true(model.eval(self.C[k]["weakfail"], model_completion=True)) and op is not None and getattr(op, "name", "") == "atomic_cxchgweak":
                extra.append("weak-CAS spurious failure")
            if parked:
                extra.append("returns from futex wait" + ("" if z3.is_true(model.eval(self.S[k][("woken", sc)], model_completion=True)) else " SPURIOUSLY"))
            picks = [u for u in range(self.n) if z3.is_true(model.eval(self.C[k][("pick", u)], model_completion=True))]
            if op is not None and op.kind == "syscall" and picks:
                extra.append("wakes thread(s) %s" % picks)
            out.append({"step": k, "thread": sc, "program": t.entry, "cp": pc, "next_cp": pc2, "op": describe_op(op), "mem_after": mem,
                        "holding_after": sorted(t.holding[pc2]) if pc2 < len(t.holding) else [], "notes": extra})
        return out


def describe_op(op):
    if op is None:
        return "?"
    if op.kind == "atomic":
        d = "%s(%s" % (op.name, op.loc)
        for k in ("expected", "new", "val"):
            if hasattr(op, k):
                d += ", %s=%s" % (k, z3.simplify(getattr(op, k)) if z3.is_expr(getattr(op, k)) else getattr(op, k))
        return d + ") %s%s" % (op.order, "/" + op.order_fail if op.order_fail else "")
    if op.kind == "syscall":
        code = z3.simplify(op.si[1]).as_long() if op.si[0] == "bv" and z3.is_bv_value(z3.simplify(op.si[1])) else None
        return "futex(%s, op=%s%s, val=%s)" % (op.di[1] if op.di[0] == "loc" else "?", {0: "WAIT", 1: "WAKE"}.get((code or 0) & 0x7F, code),
                                              "|PRIVATE" if code and code & 128 else "", z3.simplify(op.dx[1]) if op.dx[0] == "bv" else "?")
    if op.kind in ("nread", "nwrite"):
        return "%s protected data (%s)" % ("read" if op.kind == "nread" else "write", op.loc)
    return op.kind
