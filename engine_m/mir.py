"""Parser for the subset of rustc's `-Zunpretty=mir` text that the lock / thread functions use.
Anything outside the subset raises MirError (the check then exits 2: inconclusive, never 0)."""
import re


class MirError(Exception):
    pass


# ---------------------------------------------------------------- helpers
def split_top(s, sep=","):
    """split at top-level separators (ignoring (), [], {}, <> nesting and string literals)"""
    out, depth, cur, i, instr = [], 0, [], 0, False
    while i < len(s):
        c = s[i]
        if instr:
            cur.append(c)
            if c == "\\":
                cur.append(s[i + 1]); i += 1
            elif c == '"':
                instr = False
        elif c == '"':
            instr = True; cur.append(c)
        elif c in "([{":
            depth += 1; cur.append(c)
        elif c in ")]}":
            depth -= 1; cur.append(c)
        elif c == "<" and _is_generic_open(s, i):
            depth += 1; cur.append(c)
        elif c == ">" and depth > 0 and s[i - 1] not in "-=" and _angle_depth(cur) > 0:
            depth -= 1; cur.append(c)
        elif c == sep and depth == 0:
            out.append("".join(cur).strip()); cur = []
        else:
            cur.append(c)
        i += 1
    last = "".join(cur).strip()
    if last:
        out.append(last)
    return out


def _is_generic_open(s, i):
    # `::<` or `Type<` (identifier char before) are generics; ` < ` would be a comparison (never printed in MIR rvalues)
    return i > 0 and (s[i - 1].isalnum() or s[i - 1] in ":_>")


def _angle_depth(cur):
    t = "".join(cur)
    return t.count("<") - t.count(">") + t.count("->")


def match_paren(s, i):
    """index of the parenthesis matching s[i] == '('"""
    assert s[i] == "("
    depth = 0
    j = i
    instr = False
    while j < len(s):
        c = s[j]
        if instr:
            if c == "\\":
                j += 1
            elif c == '"':
                instr = False
        elif c == '"':
            instr = True
        elif c == "(":
            depth += 1
        elif c == ")":
            depth -= 1
            if depth == 0:
                return j
        j += 1
    raise MirError("unbalanced parenthesis in: " + s)


# ---------------------------------------------------------------- AST
class Place:
    """root local + projection list; projections: ('deref',), ('field', n, type), ('downcast', variant)"""
    __slots__ = ("local", "proj")

    def __init__(self, local, proj=()):
        self.local, self.proj = local, tuple(proj)

    def __repr__(self):
        return "Place(%s%s)" % (self.local, "".join("." + str(p[1]) if p[0] == "field" else ("^" if p[0] == "deref" else " as " + p[1]) for p in self.proj))


def parse_place(s):
    s = s.strip()
    if re.fullmatch(r"_\d+", s):
        return Place(s)
    if not s.startswith("("):
        raise MirError("place not understood: " + s)
    end = match_paren(s, 0)
    if end != len(s) - 1:
        # index projection etc.
        raise MirError("place with trailing projection not supported: " + s)
    inner = s[1:-1].strip()
    if inner.startswith("*"):
        base = parse_place(inner[1:])
        return Place(base.local, base.proj + (("deref",),))
    # (P as Variant)
    m = re.fullmatch(r"(.*) as (\w+)", inner)
    if m and _balanced(m.group(1)):
        base = parse_place(m.group(1))
        return Place(base.local, base.proj + (("downcast", m.group(2)),))
    # (P.N: Type)
    # find the base place: it is either _N or a parenthesised place
    if inner.startswith("_"):
        m = re.match(r"(_\d+)\.(\d+): (.*)$", inner)
        if not m:
            raise MirError("field place not understood: " + s)
        return Place(m.group(1), (("field", int(m.group(2)), m.group(3)),))
    if inner.startswith("("):
        e = match_paren(inner, 0)
        base = parse_place(inner[: e + 1])
        rest = inner[e + 1:]
        m = re.match(r"\.(\d+): (.*)$", rest)
        if not m:
            raise MirError("field place not understood: " + s)
        return Place(base.local, base.proj + (("field", int(m.group(1)), m.group(2)),))
    raise MirError("place not understood: " + s)


def rmatch_paren(s):
    """s ends with ')': index of its matching '(' (string literals respected)"""
    # forward scan recording the start of each top-level-closed group
    stack, i, instr, last_open = [], 0, False, None
    while i < len(s):
        c = s[i]
        if instr:
            if c == "\\":
                i += 1
            elif c == '"':
                instr = False
        elif c == '"':
            instr = True
        elif c == "(":
            stack.append(i)
        elif c == ")":
            last_open = stack.pop()
        i += 1
    if stack or last_open is None:
        raise MirError("unbalanced: " + s)
    return last_open


def _balanced(t):
    return t.count("(") == t.count(")")


class Operand:
    """kind: 'copy'/'move' (place) or 'const' (text)"""
    __slots__ = ("kind", "place", "const")

    def __init__(self, kind, place=None, const=None):
        self.kind, self.place, self.const = kind, place, const

    def __repr__(self):
        return "%s %s" % (self.kind, self.place if self.place else self.const)


def parse_operand(s):
    s = s.strip()
    for k in ("no_retag copy ", "copy ", "move "):
        if s.startswith(k):
            return Operand("copy" if "copy" in k else "move", parse_place(s[len(k):]))
    if s.startswith("const "):
        return Operand("const", const=s[6:].strip())
    raise MirError("operand not understood: " + s)


BINOPS = {"Eq", "Ne", "Lt", "Le", "Gt", "Ge", "Add", "Sub", "Mul", "Div", "Rem", "BitAnd", "BitOr", "BitXor", "Shl", "Shr",
          "AddWithOverflow", "SubWithOverflow", "MulWithOverflow", "Offset", "AddUnchecked", "SubUnchecked", "ShlUnchecked",
          "ShrUnchecked", "MulUnchecked", "Cmp"}
UNOPS = {"Not", "Neg", "PtrMetadata"}


class Rvalue:
    __slots__ = ("kind", "a")

    def __init__(self, kind, *a):
        self.kind, self.a = kind, a

    def __repr__(self):
        return "Rv(%s %r)" % (self.kind, self.a)


def parse_rvalue(s):
    s = s.strip()
    m = re.match(r"(\w+)\((.*)\)$", s)
    if m and m.group(1) in BINOPS:
        parts = split_top(m.group(2))
        if len(parts) == 2:
            return Rvalue("binop", m.group(1), parse_operand(parts[0]), parse_operand(parts[1]))
    if m and m.group(1) in UNOPS:
        return Rvalue("unop", m.group(1), parse_operand(m.group(2)))
    if m and m.group(1) == "discriminant":
        return Rvalue("discriminant", parse_place(m.group(2)))
    if s.startswith("&raw const ") or s.startswith("&raw mut "):
        return Rvalue("addr", parse_place(s.split(" ", 2)[2]))
    if s.startswith("&mut "):
        return Rvalue("addr", parse_place(s[5:]))
    if s.startswith("&"):
        return Rvalue("addr", parse_place(s[1:]))
    # cast: OPERAND as TYPE (Kind)
    m = re.match(r"(.*) as (.*) \((\w+(?:\([^)]*\))?)\)$", s)
    if m and (m.group(1).startswith(("copy ", "move ", "const "))):
        return Rvalue("cast", parse_operand(m.group(1)), m.group(2), m.group(3))
    if s.startswith(("copy ", "move ", "const ", "no_retag copy ")):
        return Rvalue("use", parse_operand(s))
    # aggregates
    m = re.match(r"(\{closure@[^}]*\}) \{ (.*) \}$", s)
    if m:
        fields = []
        for f in split_top(m.group(2)):
            name, val = f.split(": ", 1)
            fields.append((name.strip(), parse_operand(val)))
        return Rvalue("struct", m.group(1), fields)
    if re.match(r"\{closure@[^}]*\}$", s):
        return Rvalue("struct", s, [])
    if s.startswith("(") and match_paren(s, 0) == len(s) - 1:
        return Rvalue("tuple", [parse_operand(p) for p in split_top(s[1:-1])])
    m = re.match(r"([\w:<>', \*&\(\)\[\];]+?) \{ (.*) \}$", s)
    if m:
        fields = []
        for f in split_top(m.group(2)):
            name, val = f.split(": ", 1)
            fields.append((name.strip(), parse_operand(val)))
        return Rvalue("struct", m.group(1), fields)
    # Enum::Variant(ops) / Enum::Variant
    m = re.match(r"(.+)::(\w+)\((.*)\)$", s)
    if m:
        return Rvalue("variant", m.group(1), m.group(2), [parse_operand(p) for p in split_top(m.group(3))])
    m = re.match(r"(.+)::(\w+)$", s)
    if m:
        return Rvalue("variant", m.group(1), m.group(2), [])
    if re.match(r"[\w:]+::<.*>$", s):
        return Rvalue("struct", s, [])  # unit struct such as PhantomData::<T>
    m = re.match(r"([A-Z]\w*)\((.*)\)$", s)
    if m:
        return Rvalue("struct", m.group(1), [(str(i), parse_operand(p)) for i, p in enumerate(split_top(m.group(2)))])
    raise MirError("rvalue not understood: " + s)


class Stmt:
    __slots__ = ("kind", "place", "rv", "text")

    def __init__(self, kind, place=None, rv=None, text=""):
        self.kind, self.place, self.rv, self.text = kind, place, rv, text


class Term:
    """kind: goto, switch, call, asm, assert, return, unreachable, drop, resume"""

    def __init__(self, kind, **kw):
        self.kind = kind
        self.__dict__.update(kw)


class Function:
    def __init__(self, name, params, ret, header):
        self.name, self.params, self.ret, self.header = name, params, ret, header
        self.locals = {}   # _n -> type text
        self.blocks = {}   # bbN -> (stmts, term)
        self.text = []


FN_RE = re.compile(r"^fn (.+?)\((.*)\) -> (.+) \{$")
LET_RE = re.compile(r"^\s*let (?:mut )?(_\d+): (.+);$")
BB_RE = re.compile(r"^\s*(bb\d+)(?: \(cleanup\))?: \{$")


def parse_terminator(t):
    t = t.rstrip(";").strip()
    if t == "return":
        return Term("return")
    if t == "unreachable":
        return Term("unreachable")
    if t.startswith("resume") or t.startswith("unwind terminate") or t.startswith("terminate"):
        return Term("resume")
    m = re.fullmatch(r"goto -> (bb\d+)", t)
    if m:
        return Term("goto", target=m.group(1))
    m = re.fullmatch(r"switchInt\((.*)\) -> \[(.*)\]", t)
    if m:
        targets, otherwise = [], None
        for part in split_top(m.group(2)):
            k, v = part.split(": ")
            if k == "otherwise":
                otherwise = v
            else:
                targets.append((int(k), v))
        return Term("switch", op=parse_operand(m.group(1)), targets=targets, otherwise=otherwise)
    m = re.fullmatch(r"assert\((!?)(.*?), \"(.*)\"(.*)\) -> \[success: (bb\d+), unwind[^\]]*\]", t)
    if m:
        return Term("assert", negate=m.group(1) == "!", op=parse_operand(m.group(2)), msg=m.group(3), target=m.group(5))
    m = re.fullmatch(r"drop\((.*)\) -> \[return: (bb\d+), unwind[^\]]*\]", t)
    if m:
        return Term("drop", place=parse_place(m.group(1)), target=m.group(2))
    if t.startswith("asm!("):
        e = match_paren(t, 4)
        body = t[5:e]
        m = re.search(r"-> \[return: (bb\d+)", t[e:])
        parts = split_top(body)
        ops = []
        for p in parts[1:]:
            mm = re.match(r'(inout|in|out|lateout)\("?(\w+)"?\) (.*)$', p)
            if not mm:
                if p.startswith("options("):
                    continue
                raise MirError("asm operand not understood: " + p)
            kind, reg, rest = mm.groups()
            if kind == "inout":
                a, b = rest.split(" => ")
                ops.append((kind, reg, parse_operand(a), None if b.strip() == "_" else parse_place(b)))
            elif kind == "in":
                ops.append((kind, reg, parse_operand(rest), None))
            else:
                ops.append((kind, reg, None, None if rest.strip() == "_" else parse_place(rest)))
        return Term("asm", template=parts[0], ops=ops, target=m.group(1) if m else None)
    # call: DEST = FUNC(ARGS) -> [return: bbN, unwind ...]   or without return (diverging)
    m = re.fullmatch(r"(.+) -> (\[return: (bb\d+), unwind[^\]]*\]|unwind.*)", t)
    if m and " = " in m.group(1):
        lhs, rhs = m.group(1).split(" = ", 1)
        if rhs.endswith(")"):
            o = rmatch_paren(rhs)
            return Term("call", dest=parse_place(lhs), func=rhs[:o], args=[parse_operand(a) for a in split_top(rhs[o + 1:-1])],
                        target=m.group(3))
    raise MirError("terminator not understood: " + t)


def parse_statement(line):
    s = line.strip().rstrip(";")
    m = re.match(r"StorageDead\((_\d+)\)$", s)
    if m:
        return Stmt("dead", place=Place(m.group(1)), text=s)
    if s.startswith(("StorageLive", "// ", "nop", "Retag", "PlaceMention", "FakeRead", "Coverage", "ConstEvalCounter")):
        return None
    m = re.match(r"assume\((.*)\)$", s)
    if m:
        return Stmt("assume", rv=Rvalue("use", parse_operand(m.group(1))), text=s)
    if " = " in s:
        lhs, rhs = s.split(" = ", 1)
        return Stmt("assign", place=parse_place(lhs), rv=parse_rvalue(rhs), text=s)
    raise MirError("statement not understood: " + s)


def parse_function(header_line, lines):
    m = FN_RE.match(header_line)
    params = []
    for p in split_top(m.group(2)):
        if ": " in p:
            a, b = p.split(": ", 1)
            params.append((a.strip(), b.strip()))
    cur = Function(m.group(1), params, m.group(3), header_line)
    for a, b in params:
        cur.locals[a] = b
    cur.locals["_0"] = m.group(3)
    cur.text = lines
    bb, stmts, pending = None, None, None
    for line in lines:
        m = LET_RE.match(line)
        if m and bb is None:
            cur.locals[m.group(1)] = m.group(2)
            continue
        m = BB_RE.match(line)
        if m:
            bb, stmts, pending = m.group(1), [], None
            continue
        if bb is not None:
            if line.strip() == "}":
                if pending is None:
                    raise MirError("block without terminator in " + cur.name)
                cur.blocks[bb] = (stmts, pending)
                bb = None
                continue
            t = line.strip()
            if not t:
                continue
            if re.match(r"(return|unreachable|resume|goto ->|switchInt\(|assert\(|drop\(|asm!\(|unwind |terminate)", t) or \
                    re.search(r"-> \[return: bb\d+|-> unwind", t):
                pending = parse_terminator(t)
            else:
                st = parse_statement(t)
                if st is not None:
                    stmts.append(st)
    return cur


class Module:
    """All functions of one MIR dump; bodies are parsed on first use."""

    def __init__(self, path):
        self.path = path
        self.raw = {}      # key -> (header, lines)
        self.parsed = {}
        cur_h, cur_l = None, None
        with open(path) as fh:
            for raw in fh:
                line = raw.rstrip("\n")
                if cur_h is None:
                    if FN_RE.match(line):
                        cur_h, cur_l = line, []
                    continue
                if line == "}":
                    name = FN_RE.match(cur_h).group(1)
                    key, n = name, 2
                    while key in self.raw:
                        key = "%s#%d" % (name, n); n += 1
                    self.raw[key] = (cur_h, cur_l)
                    cur_h = None
                    continue
                cur_l.append(line)

    def names(self):
        return list(self.raw)

    def get(self, key):
        if key not in self.parsed:
            h, l = self.raw[key]
            self.parsed[key] = parse_function(h, l)
        return self.parsed[key]

    def signature(self, key):
        m = FN_RE.match(self.raw[key][0])
        return m.group(1), m.group(2), m.group(3)
