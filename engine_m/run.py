#!/usr/bin/env python3-vt
"""Engine M driver: regenerate MIR from the repository's current sources, build thread automata, run the BMC queries
(in parallel processes) and report. Used by ./check for C01, C02 (and C05/C06)."""
import json
import multiprocessing as mp
import os
import re
import shutil
import subprocess
import sys
import time

HERE = os.path.dirname(os.path.abspath(__file__))
sys.path.insert(0, HERE)
VERIF = os.path.dirname(HERE)
REPO = os.environ.get("VERIF_REPO", "/repo")
SCRATCH = os.environ.get("VERIF_SCRATCH", "/var/tmp/verif-tiny-std")

MIR_FLAGS = ["-Zunpretty=mir", "-C", "debug-assertions=off", "-C", "overflow-checks=on", "-C", "opt-level=1", "-Zmir-opt-level=2",
             "-Zinline-mir=yes", "-Zinline-mir-threshold=500", "-Zinline-mir-hint-threshold=500"]


def dump_mir():
    """nightly rustc -Zunpretty=mir for tiny-std (with the thread features) and for the thread-program crate"""
    out = os.path.join(SCRATCH, "m", "mir")
    os.makedirs(out, exist_ok=True)
    env = dict(os.environ, CARGO_NET_OFFLINE="true")
    res = {}
    jobs = [("tiny_std", os.path.join(REPO, "tiny-std"), ["--features", "threaded,symbols,allocator-provided"]),
            ("programs", os.path.join(os.environ.get("VERIF_ENGINE_M", HERE), "programs"), [])]
    for name, cwd, feats in jobs:
        lock = os.path.join(cwd, "Cargo.lock")
        if name == "programs" and not os.path.exists(lock):
            shutil.copy(os.path.join(REPO, "Cargo.lock"), lock)
        # defeat the incremental cache: an untouched re-run prints nothing
        tdir = os.path.join(SCRATCH, "m", "target_" + name)
        shutil.rmtree(tdir, ignore_errors=True)
        path = os.path.join(out, name + ".mir")
        cmd = ["cargo", "+nightly", "rustc", "--offline", "--lib"] + feats + ["--target-dir", tdir, "--"] + MIR_FLAGS
        t0 = time.time()
        with open(path, "w") as fh:
            p = subprocess.run(cmd, cwd=cwd, env=env, stdout=fh, stderr=subprocess.PIPE)
        if p.returncode != 0 or os.path.getsize(path) < 1000:
            raise RuntimeError("MIR dump of %s failed:\n%s" % (name, p.stderr.decode()[-2000:]))
        res[name] = path
        res[name + "_s"] = time.time() - t0
    return res


LAYOUTS = {
    "mutex": {"obj": "mutex", "layout": {(0,): "futex", (1,): "data"}, "atomic": ["futex"], "data": ["data"],
              "guards": {"exclusive": ["MutexGuard"], "shared": []}, "spin": {"function": r"::spin$", "literal": "100_i32"}},
    "rwlock": {"obj": "rwlock", "layout": {(0, 0): "state", (0, 1): "wnotify", (1,): "data"}, "atomic": ["state", "wnotify"],
               "data": ["data"], "guards": {"exclusive": ["RwLockWriteGuard"], "shared": ["RwLockReadGuard"]},
               "spin": {"function": r"read_contended|write_contended|spin_until", "literal": "100_i32"}},
}
MASK = (1 << 30) - 1


def held_pred_for(kind, progs):
    """per thread: 'the value this thread's atomic operation observed shows that the lock did not admit a try_*':
    mutex: word != 0; rwlock try_write: not unlocked; rwlock try_read: not read-lockable (as documented in rwlock.rs)"""
    import z3
    if kind == "mutex":
        return lambda tid, l, old: old != 0
    MAXR = MASK - 1

    def pred(tid, l, old):
        if l != "state":
            return z3.BoolVal(False)
        cnt = old & z3.BitVecVal(MASK, 32)
        if "try_write" in progs[tid]:
            return cnt != 0
        waiting = (old & z3.BitVecVal(3 << 30, 32)) != 0
        return z3.Or(z3.UGE(cnt, z3.BitVecVal(MAXR, 32)), waiting)
    return pred


def build(kind, progs, mirs):
    import mir
    import interp
    M = mir.Module(mirs["tiny_std"])
    P = mir.Module(mirs["programs"])
    L = LAYOUTS[kind]
    ths = []
    for i, e in enumerate(progs):
        cfg = {"layout": {L["obj"]: L["layout"]}, "spin_rewrite": dict(L["spin"], max_budget=int(os.environ.get("VERIF_SPIN_BUDGET", "0")))}
        th = interp.Thread(i, [P, M], e, [interp.Ptr(L["obj"], ())], cfg)
        th.build()
        ths.append(th)
    return ths


def run_query(task):
    """one solver query; returns a JSON-able dict"""
    import z3
    import bmc
    import mir
    kind, progs, K, query, timeout, mirs = task["kind"], task["progs"], task["K"], task["query"], task["timeout"], task["mirs"]
    t0 = time.time()
    out = dict(task)
    out.pop("mirs")
    try:
        ths = build(kind, progs, mirs)
        L = LAYOUTS[kind]
        try_only = {i: True for i, p in enumerate(progs) if re.search(r"_try_(w|read|write)$", p) or p in ("m_try_w",)}
        sysm = bmc.System(ths, L["atomic"], L["data"], K, L["guards"], try_only=try_only, held_pred=held_pred_for(kind, progs),
                          track_hb=(query in ("race", "all")))
        sym = []
        seen = {}
        for i, p in enumerate(progs):
            if p in seen:
                sym.append((seen[p], i))
            seen[p] = i
        sysm.unroll(symmetric_pairs=sym)
        out["build_s"] = round(time.time() - t0, 1)
        out["cps"] = sysm.stats["cps"]
        out["paths"] = sysm.stats["paths"]
        out["state_bits"] = sum(v.size() for t in ths for v in t.state_vars.values())
        out["functions"] = sorted(set(f for t in ths for f in t.functions_used))
        out["trusted_calls"] = sorted(set(f for t in ths for f in t.trusted_calls))
        out["spin_rewritten"] = sorted(set(f for t in ths for f in t.cfg.get("_spin_rewritten", [])))
        # static part of (d): a try-only program contains no futex wait at all
        static_bad = []
        for t in ths:
            if try_only.get(t.tid):
                for op in t.cp_op:
                    if op.kind == "syscall" and op.si[0] == "bv":
                        code = z3.simplify(op.si[1])
                        if op.nr == 202 and z3.is_bv_value(code) and (code.as_long() & 0x7F) == 0:
                            static_bad.append("%s can reach a futex WAIT (a try_* operation must never block)" % t.entry)
        out["static_violations"] = static_bad
        if query == "reach":
            goal = sysm.all_done()
        elif query == "all":
            goal = z3.Or([z3.Or(sysm.badk[k]) for k in sysm.badk])
        else:
            goal = z3.Or(sysm.badk[query])
        r, dt, model = sysm.solve(goal, timeout)
        out["result"], out["solve_s"] = r, round(dt, 1)
        if r == "sat" and query != "reach":
            which = []
            for name, lst in sysm.badk.items():
                for k, b in enumerate(lst):
                    if z3.is_true(model.eval(b, model_completion=True)):
                        which.append((name, k))
                        break
            out["violated"] = which
            out["trace"] = sysm.trace(model)
    except mir.MirError as e:
        out["result"] = "error"
        out["error"] = "MIR/encoder: " + str(e)
    except Exception as e:  # noqa
        import traceback
        out["result"] = "error"
        out["error"] = traceback.format_exc()[-1500:]
    out["wall_s"] = round(time.time() - t0, 1)
    return out


def run_tasks(tasks, jobs):
    with mp.Pool(jobs) as pool:
        res = []
        for r in pool.imap_unordered(run_query, tasks):
            print("[M] %-8s %-44s K=%-3d %-9s %-8s %6.1fs %s" % (r["kind"], "+".join(r["progs"]), r["K"], r["query"], r.get("result"),
                                                              r.get("wall_s", 0), (r.get("error") or "")[:200]), flush=True)
            res.append(r)
    return res


if __name__ == "__main__":
    # calibration helper: python3-vt run.py mutex "m_lock_w,m_lock_w" 24 race,deadlock 600
    kind, progs, K, queries, timeout = sys.argv[1], sys.argv[2].split(","), int(sys.argv[3]), sys.argv[4].split(","), int(sys.argv[5])
    mirs = {"tiny_std": os.environ.get("MIR_TINY", "/var/tmp/mir/tiny_std.mir"), "programs": os.environ.get("MIR_PROG", "/var/tmp/mir/programs.mir")}
    if os.environ.get("DUMP"):
        mirs = dump_mir()
    tasks = [dict(kind=kind, progs=progs, K=K, query=q, timeout=timeout, mirs=mirs) for q in queries]
    for r in run_tasks(tasks, len(tasks)):
        if r.get("trace"):
            for st in r["trace"]:
                print("    ", st)
