//! Thread programs for the schedule checks (C01, C02): ordinary Rust against tiny-std's public lock API.
//! Their MIR (with tiny-std's generic lock functions inlined by rustc) is what engine M interprets.
#![no_std]
use tiny_std::sync::{Mutex, RwLock};

#[inline(never)]
pub fn m_lock_w(m: &Mutex<u32>) {
    let mut g = m.lock();
    *g = 7;
}

#[inline(never)]
pub fn m_lock_w_lock_r(m: &Mutex<u32>) {
    {
        let mut g = m.lock();
        *g = 7;
    }
    {
        let g = m.lock();
        let _v = unsafe { core::ptr::read_volatile(&*g) };
    }
}

#[inline(never)]
pub fn m_try_w(m: &Mutex<u32>) {
    if let Some(mut g) = m.try_lock() {
        *g = 7;
    }
}

#[inline(never)]
pub fn m_try_then_lock_w(m: &Mutex<u32>) {
    if let Some(mut g) = m.try_lock() {
        *g = 7;
        return;
    }
    let mut g = m.lock();
    *g = 9;
}

#[inline(never)]
pub fn rw_read(l: &RwLock<u32>) {
    let g = l.read();
    let _v = unsafe { core::ptr::read_volatile(&*g) };
}

#[inline(never)]
pub fn rw_write(l: &RwLock<u32>) {
    let mut g = l.write();
    *g = 7;
}

#[inline(never)]
pub fn rw_try_read(l: &RwLock<u32>) {
    if let Some(g) = l.try_read() {
        let _v = unsafe { core::ptr::read_volatile(&*g) };
    }
}

#[inline(never)]
pub fn rw_try_write(l: &RwLock<u32>) {
    if let Some(mut g) = l.try_write() {
        *g = 7;
    }
}
