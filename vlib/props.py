"""Per-property dispatch: which engine decides which property, with the assumptions recorded in evidence."""
import os

from . import kani
from .common import VERIF, log

KERNEL_ASSUMPTIONS = [
    "the `sc` crate (one `syscall` instruction per function) is replaced through [patch.crates-io] by /verif/engine_k/sc, "
    "whose syscallN functions enter a symbolic kernel; rusl, tiny-std, tiny-start, tiny-cli are compiled unchanged from /repo",
]
COMMON = [
    "Kani 0.68.0 / CBMC 6.11.0 / cadical are trusted; results hold only inside the stated bounds (sizes, unwindings)",
    "x86_64 only; dev profile with overflow checks as Kani models it (counterexamples are replayed natively)",
]

K_PROPS = {
    "C12": dict(assumptions=COMMON + KERNEL_ASSUMPTIONS + [
                    "descriptor model: 32-entry table, lowest-free allocation, stdin/stdout/stderr open initially; every descriptor-taking call checks that its descriptor is open",
                    "fault model: quick = one failing call at a symbolic index with a symbolic errno 1..=4095 (so EAGAIN/EINPROGRESS/EINTR paths are included); thorough adds two failing calls",
                    "ppoll returns 0 (time-out) or 1 (ready) symbolically; read/write/copy_file_range return any count <= the requested length",
                    "rusl::unistd::stat_fd is replaced by statat(fd, \"\") because Kani 0.68 cannot encode the `UnixStr::EMPTY` constant it passes"],
                outside=["openpty, process::Stdio::Null (/dev/null) and unix::random use `const X: &UnixStr` literals that Kani 0.68 cannot encode (constant fat pointer to an unsized newtype) - not covered",
                         "descriptors inherited across a real exec", "the scenario list is finite and printed in coverage.samples"]),
    "C08": dict(assumptions=COMMON + [
                    "the symbols are called through their Rust paths (tiny_start::symbols::mem::*); Kani unwinds the real loops",
                    "CBMC's pointer-to-integer model: alignment is derived from the offset inside a 16-byte aligned 64-byte buffer",
                    "oracle: C definition stated at one symbolic index over the whole buffer (inside the range: source/fill byte; outside: unchanged)"],
                outside=["n above the stated bound (trip count grows with n; the property's sampled sizes up to 1 MiB are not attempted)",
                         "memmove with both offsets fully free did not finish (25 min) and is split into three overlap cases"]),
    "C17": dict(assumptions=COMMON + [
                    "source hook: rusl feature `verif-hooks` (IoUring::verif_from_raw_parts) builds the ring over harness memory; ring logic itself is /repo's unchanged code",
                    "kernel side modelled in the harness: consumes published entries in order via the index array (identity mapping as setup_io_uring writes it); posts completions only while the CQ has a free slot (ktail-khead < n)",
                    "start state: arbitrary valid ring state (symbolic 32-bit bases, pending/unflushed/pending-completion counts) — an induction step",
                    "interleaving at call granularity (sequential), as the property states"],
                outside=["ring sizes > 8; SQE128/CQE32 strides; more steps than stated; weak-memory reorderings between the two sides"]),
    "C09": dict(assumptions=COMMON + KERNEL_ASSUMPTIONS + [
                    "raw kernel mode: the value returned by each `syscall` instruction is an unconstrained 64-bit variable; memory the "
                    "kernel would fill through pointer arguments is left as the wrapper initialised it",
                    "for descriptor/pid-returning calls success values above i32::MAX are not judged (the kernel never returns them)",
                    "execve: only error returns are considered (it returns only on failure)",
                    "the single-call rule (a re-issue is legitimate only for dup3 after -EBUSY) is asserted inside the kernel at the moment of the second call; paths with more than 3 calls are cut"],
                outside=["wrappers not in the table (see coverage.uncovered_wrappers)", "aarch64 variants", "io_uring register variants beyond files"]),
    "C19": dict(assumptions=COMMON + KERNEL_ASSUMPTIONS + [
                    "clock_gettime model: arbitrary normalised instants, non-decreasing (the kernel's guarantee is assumed, not checked)",
                    "nanosleep model: completes, or -EINTR after sleeping any part with the exact remainder written; <= 3 interruptions",
                    "exactness oracle is stated without multiplication in 128-bit arithmetic (carry pairs), see c19.rs"],
                outside=["that the real kernel's monotonic clock is monotonic; vDSO agreement with the syscall (kernel-provided code)",
                         "wall-clock lower bound of sleep on a real kernel (follows from the remainder protocol checked here plus the kernel contract)"]),
    "C10": dict(assumptions=COMMON + ["alloc::fmt::format is executed for real (no stub) at the stated operand sizes",
                                      "format operands are one `{}` of a symbolic ASCII str, or literals"],
                outside=["inputs longer than the stated byte lengths", "DirEntry::file_unix_name is checked under C14 (directory records)",
                         "UnixStr::from_str_checked's panic on ill-terminated input is its documented const-context rejection and is expected"]),
    "C11": dict(assumptions=COMMON + ["reference functions for find/prefix/suffix/join/parent/file-name are the 10-20 line "
                                      "definitions in engine_k/k_rusl/src/util.rs and c11.rs, written from the property text "
                                      "and the repository's doc comments"],
                outside=["operands longer than the stated byte lengths", "path_join_fmt is covered under C10/C11 with "
                         "literal and symbolic str operands only"]),
}


def c09_uncovered():
    """rusl wrappers (pub fns whose body contains `syscall!`) that no C09 obligation names."""
    import re
    from .common import REPO
    wrappers = set()
    for root, _, fs in os.walk(os.path.join(REPO, "rusl", "src")):
        for f in fs:
            if not f.endswith(".rs"):
                continue
            s = open(os.path.join(root, f)).read()
            for m in re.finditer(r"pub (?:unsafe )?fn (\w+)\s*(?:<[^>]*>)?\s*\(", s):
                i = s.find("{", m.end())
                if i < 0:
                    continue
                depth, j = 1, i + 1
                while depth and j < len(s):
                    depth += {"{": 1, "}": -1}.get(s[j], 0)
                    j += 1
                body = s[i:j]
                sig = s[m.start():i]
                if "syscall!" in body and "#[cfg(test)]" not in s[max(0, m.start() - 200):m.start()] and ";" not in sig:
                    wrappers.add(m.group(1))
    named = set()
    for ob in kani.discover("C09"):
        for fn in ob.fns:
            named.add(fn.split("::")[-1])
    return sorted(wrappers - named), len(wrappers)


def dispatch(prop, tier, seed, only, replay_path, jobs):
    if replay_path:
        p = replay_path if os.path.isabs(replay_path) else os.path.join(VERIF, replay_path)
        return kani.replay_from_file(p)
    if prop in K_PROPS:
        cfg = dict(K_PROPS[prop])
        if prop == "C09":
            unc, total = c09_uncovered()
            cfg["outside"] = cfg.get("outside", []) + ["rusl wrappers found in the current source without a harness (%d of %d): %s"
                                                       % (len(unc), total, ", ".join(unc) or "none")]
            log("[C09] %d wrappers containing syscall! in /repo/rusl/src; without harness: %s" % (total, ", ".join(unc) or "none"))
        return kani.check_property(prop, tier, seed, only=only, jobs=jobs, assumptions=cfg.get("assumptions"),
                                   outside=cfg.get("outside"))
    log("unknown or unclaimed property %s" % prop)
    return 2
