"""Per-property dispatch: which engine decides which property, with the assumptions recorded in evidence."""
import os

from . import kani
from .common import VERIF, log

KERNEL_ASSUMPTIONS = [
    "the `sc` crate (one `syscall` instruction per function) is replaced through [patch.crates-io] by /verif/engine_k/sc, "
    "whose syscallN functions enter a symbolic kernel; rusl, tiny-std, tiny-start, tiny-cli are compiled unchanged from /repo",
]
COMMON = [
    "Kani 0.68.0 / CBMC 6.11.0 / cadical are trusted; results hold only inside the stated bounds (sizes, unwindings)",
    "x86_64 only; dev profile with overflow checks as Kani models it (counterexamples are replayed natively)",
    "VERIF_SEED is recorded but has no influence: every verdict is a solver result over all values within the stated bounds, nothing is sampled",
]

K_PROPS = {
    "C03": dict(assumptions=COMMON + KERNEL_ASSUMPTIONS + [
                    "tiny-std/src/allocator/dlmalloc.rs is compiled from the repository's file inside a wrapper module (include!); debug-assertions are off in the harness profile (check_malloc_state walks all bins after every call), overflow checks stay on",
                    "OS model: mmap serves two page-aligned 64 KiB arenas of uninitialised (= arbitrary) memory with exact bookkeeping and refuses anything else with ENOMEM; mremap may only shrink in place; one injected failure where stated",
                    "least_bit is checked under its call-site precondition x != 0 (non-empty bin map)"],
                outside=["everything beyond ONE malloc on the fresh heap: memalign, calloc, free, realloc and any second operation are NOT covered (each measured: no verdict in 15-30 min / 24 GB) - a listed, fully concrete script of 5 operations already needs 10 min of symbolic execution, 8 million steps and 14-19 GB (the allocator masks pointer values for alignment, CBMC cannot fold them, every bin pointer read back from the arena becomes symbolic); ten such scripts were built, measured and removed",
                         "therefore: disjointness / contents-intact across frees, reuse of freed space, coalescing, tree-bin rotations, realloc prefix preservation, heap usable after an OOM - the larger half of C03 - are outside what this check decides; multi-threaded use through the global allocator; large (mmapped) blocks"]),
    "C05": dict(assumptions=COMMON + KERNEL_ASSUMPTIONS + [
                    "tiny-std is compiled from /repo with features alloc, threaded, verif-hooks (hook commit 253aae5): thread::spawn is compiled without `symbols`, the thread panic handler is an ordinary function, get_tls_ptr reads a stand-in for the TLS register, and the panic handler's final munmap + exit are issued through the `sc` crate instead of inline asm",
                    "Kani has no threads: the schedule is a symbolic choice among the orders that do not commute (which of the two compare-exchanges on the sync flag comes first; whether the kernel's clear-child-tid write + wake lands before the parent's next step or while it is parked).  The reduction argument (the child's steps after its compare-exchange touch only its TLS block and its stack, the parent's join before parking only loads the exit futex) is in DESIGN.md section 14 and is part of the claim",
                    "the `__clone` global_asm trampoline is replaced by a model written from its comments: clone(flags, stack, 0, child_tid, tls) through the symbolic kernel; the child calls start_fn(args), then munmap(stack_unmap_ptr, stack_sz), then exits; the kernel then writes 0 to the clear_child_tid address (if still set) and wakes it",
                    "FUTEX_WAIT returns EAGAIN on a value mismatch, parks otherwise; a parked caller is resumed by the thread's exit, or spuriously (0 or EINTR) where stated; a park that nothing can ever end is reported as 'never returns'",
                    "heap: alloc::alloc::alloc / dealloc_nonnull are wrapped (same allocation by Kani's allocator model plus exact bookkeeping by address); use after free and double free are CBMC pointer checks; the 2 MiB stack mapping is represented by its top 256 bytes (the encoded code touches only StartArgs in the top 8 bytes)",
                    "a panicking closure is modelled as a call of the real panic handler tiny_std::thread::on_panic from inside the closure (the PanicInfo argument is never inspected on the thread branch)"],
                outside=["real concurrency: weak-memory effects, preemption inside the child's private steps, more than one thread alive at a time, thousands of threads",
                         "the assembly itself (register shuffling in __clone, the aarch64 variants), the main thread's TLS set-up in start.rs, allocation failure (the allocator model never returns null)",
                         "result types other than u32 (quick) and (), u128, a 64-byte-aligned struct (thorough); closures that capture droppable state"]),
    "C14": dict(assumptions=COMMON + KERNEL_ASSUMPTIONS + [
                    "model file system inside the kernel hook: (a) the set of existing component prefixes of the requested path, mkdir answers EEXIST / ENOENT (parent missing) / 0 as Linux does and flags any mkdir of a string that is not a component prefix; (b) source/destination lengths and a 'destination prefix equals source' counter, copy_file_range moves any 1..=remaining bytes; (d) getdents64 fills the caller's window with linux_dirent64 records",
                    "path shapes for create_dir_all are a concrete table (listed in the obligations); the solver's quantifier is the prior state of the tree",
                    "OpenOptions oracle: the std::fs::OpenOptions semantics table"],
                outside=["remove_dir_all on real trees, symlinks and fifos; paths across the 512-byte stack buffer; fan-out in the thousands; std::fs as independent observer",
                         "fs::read / read_to_string (read_to_end not encodable, see C15)", "copy_file_range's offset arguments are modelled as values (rusl passes the offset where the kernel expects a pointer: with a short first copy the real kernel answers EFAULT - File::copy then fails rather than corrupts; recorded as an observation in DESIGN.md)"]),
    "C18": dict(assumptions=COMMON + KERNEL_ASSUMPTIONS + [
                    "entry encoding oracle: a table transcribed from io_uring_enter(2) and liburing's io_uring_prep_* (which field of the 64-byte entry carries which argument of the equivalent system call)",
                    "set-up: the kernel stand-in fills io_uring_params (entries 1|2|4, SINGLE_MMAP on/off, ring offsets) and the ring headers (ring_mask, ring_entries) and serves mmap from static arenas with exact (addr,len) bookkeeping"],
                outside=["that the kernel executes an entry and posts exactly one completion with the direct system call's result and side effects - a statement about the Linux kernel, not encodable here (the uncovered half of C18)",
                         "linked batches, thousands of batches on one ring, registered buffers/files", "readv/writev use file offset 0 (preadv semantics) by construction; not judged"]),
    "C16": dict(assumptions=COMMON + KERNEL_ASSUMPTIONS + [
                    "ancillary data: the harness writes into the control buffer exactly what Linux writes for SCM_RIGHTS (cmsg_len = 16 + 4n, level 1, type 1) and sets the control length to CMSG_SPACE, as recvmsg does; bytes after it are arbitrary",
                    "wait logic: read/write/accept4 return EAGAIN or a result, ppoll returns ready | time-out | EINTR (<= 2) symbolically; once ppoll reported readiness the operation does not block again",
                    "address conversions: reference = the struct layouts of sockaddr_un / sockaddr_in"],
                outside=["that the real kernel transports bytes intact, in order and unduplicated (the payload path is read/write + C15's write_all/read_exact)",
                         "buffer filling at MiB scale, relative speeds of two real processes, wall-clock lower bounds of time-outs (the TimeSpec handed to ppoll is checked to equal the requested Duration)",
                         "more than 2 (3 on the send side) descriptors; sendmsg/recvmsg system-call wrappers themselves"]),
    "C15": dict(assumptions=COMMON + [
                    "reader/writer are scripts decided by the solver call by call: k bytes (0<k<=len), 0 only at end of data (reader) / 0 accepted (writer), EINTR, EIO",
                    "content oracle stated at one symbolic index; core::fmt::write is real in write_fmt",
                    "io/read_buf.rs is compiled from the repository's file inside a wrapper module (crate-private type)"],
                outside=["read_to_end / read_to_string with symbolic chunking: CBMC exhausted 40-60 GB in every formulation tried (design probes P14/P18); NOT covered - only read_exact, write_all, write_fmt and the ReadBuf cursor arithmetic are",
                         "scripts longer than the stated number of calls; payloads longer than 8 bytes", "unix::print::try_print"]),
    "C07": dict(assumptions=COMMON + [
                    "tiny-std/src/env.rs is compiled from the repository's file inside a wrapper module (include!) so the private ENV can point at a symbolic block; its `crate::error::Error` is a local stand-in type",
                    "stack image: the layout the Linux kernel builds (argc, argv[], NULL, envp[], NULL, auxv pairs, AT_NULL); aux keys pairwise distinct; _dynv = null (dynamic/static non-PIE start)",
                    "lookup reference: first entry whose name equals the key exactly and is followed by '='"],
                outside=["the three link modes and debug/release as configurations (building and exec-ing binaries is not symbolic execution)",
                         "relocate_symbols/DynSection::relocate with a non-null _dynv (static PIE self-relocation)", "vDSO symbol lookup and its agreement with the clock system call",
                         "the assembly entry point _start", "argv/env entries longer than 5 bytes, more than 3 entries"]),
    "C20": dict(assumptions=COMMON + [
                    "struct shapes A, B1, C, D in engine_k/k_cli/src/shapes.rs (bool with aliases, optional option, required/optional positional, required FromStr option, optional and required subcommand with a nested parser); the parsers are generated by /repo/tiny-cli at build time",
                    "reference parsers (ref_a/ref_b/ref_c in c20.rs) are written from the declared grammar; values are compared by argument identity",
                    "core::fmt::write is replaced by 'any result, writes nothing' in the differential harnesses (message text is not the subject); the cause-buffer harness calls write_str directly"],
                outside=["argument vectors longer than 2-3 (3-4 in thorough) or arguments longer than 3 bytes, except in the cause-buffer harness (chunks up to 300 bytes)",
                         "repeated options collected into a Vec (shape B2): the smallest instance exhausted 30-44 GB",
                         "the identity of ArgParseError.relevant_help (a &dyn Display to a zero-sized printer) is not compared",
                         "parse_cli_args (reads the real process arguments and exits)"]),
    "C13": dict(assumptions=COMMON + KERNEL_ASSUMPTIONS + [
                    "fork returns symbolically 0 (this path continues as the child) or a pid (the parent); exit() ends a path; execve either succeeds (path ends after the kernel hook checked program, argv, envp and the calls made since the fork) or fails with a symbolic errno",
                    "the parent's read of the CLOEXEC pipe returns EOF, an 8-byte report with a symbolic errno, a short count, or fails (EINTR included) - symbolic",
                    "argument/environment strings are compared by pointer identity with the configured UnixStr/UnixString"],
                outside=["that the real kernel then runs the program", "Stdio::Null (uses a `const &UnixStr` Kani cannot encode)",
                         "the `start` feature's inherited environment", "more than 2 args / env entries"]),
    "C12": dict(assumptions=COMMON + KERNEL_ASSUMPTIONS + [
                    "descriptor model: 32-entry table, lowest-free allocation, stdin/stdout/stderr open initially; every descriptor-taking call checks that its descriptor is open",
                    "fault model: quick = one failing call at a symbolic index with a symbolic errno 1..=4095 (so EAGAIN/EINPROGRESS/EINTR paths are included); thorough adds two failing calls",
                    "ppoll returns 0 (time-out) or 1 (ready) symbolically; read/write/copy_file_range return any count <= the requested length",
                    "rusl::unistd::stat_fd is replaced by statat(fd, \"\") because Kani 0.68 cannot encode the `UnixStr::EMPTY` constant it passes"],
                outside=["openpty, process::Stdio::Null (/dev/null) and unix::random use `const X: &UnixStr` literals that Kani 0.68 cannot encode (constant fat pointer to an unsized newtype) - not covered",
                         "descriptors inherited across a real exec", "the scenario list is finite and printed in coverage.samples"]),
    "C08": dict(assumptions=COMMON + [
                    "the symbols are called through their Rust paths (tiny_start::symbols::mem::*); Kani unwinds the real loops",
                    "CBMC's pointer-to-integer model: alignment is derived from the offset inside a 16-byte aligned 64-byte buffer",
                    "oracle: C definition stated at one symbolic index over the whole buffer (inside the range: source/fill byte; outside: unchanged)"],
                outside=["n above the stated bound (trip count grows with n; the property's sampled sizes up to 1 MiB are not attempted)",
                         "memmove with both offsets fully free did not finish (25 min) and is split into three overlap cases"]),
    "C17": dict(assumptions=COMMON + [
                    "source hook: rusl feature `verif-hooks` (IoUring::verif_from_raw_parts) builds the ring over harness memory; ring logic itself is /repo's unchanged code",
                    "kernel side modelled in the harness: consumes published entries in order via the index array (identity mapping as setup_io_uring writes it); posts completions only while the CQ has a free slot (ktail-khead < n)",
                    "start state: arbitrary valid ring state (symbolic 32-bit bases, pending/unflushed/pending-completion counts) — an induction step",
                    "interleaving at call granularity (sequential), as the property states"],
                outside=["ring sizes > 8; SQE128/CQE32 strides; more steps than stated; weak-memory reorderings between the two sides"]),
    "C09": dict(assumptions=COMMON + KERNEL_ASSUMPTIONS + [
                    "raw kernel mode: the value returned by each `syscall` instruction is an unconstrained 64-bit variable; memory the "
                    "kernel would fill through pointer arguments is left as the wrapper initialised it",
                    "for descriptor/pid-returning calls success values above i32::MAX are not judged (the kernel never returns them)",
                    "execve: only error returns are considered (it returns only on failure)",
                    "the single-call rule (a re-issue is legitimate only for dup3 after -EBUSY) is asserted inside the kernel at the moment of the second call; paths with more than 3 calls are cut"],
                outside=["wrappers not in the table (see coverage.uncovered_wrappers)", "aarch64 variants", "io_uring register variants beyond files"]),
    "C19": dict(assumptions=COMMON + KERNEL_ASSUMPTIONS + [
                    "clock_gettime model: arbitrary normalised instants, non-decreasing (the kernel's guarantee is assumed, not checked)",
                    "nanosleep model: completes, or -EINTR after sleeping any part with the exact remainder written; <= 3 interruptions",
                    "exactness oracle is stated without multiplication in 128-bit arithmetic (carry pairs), see c19.rs"],
                outside=["that the real kernel's monotonic clock is monotonic; vDSO agreement with the syscall (kernel-provided code)",
                         "wall-clock lower bound of sleep on a real kernel (follows from the remainder protocol checked here plus the kernel contract)"]),
    "C10": dict(assumptions=COMMON + ["alloc::fmt::format is executed for real (no stub) at the stated operand sizes",
                                      "format operands are one `{}` of a symbolic ASCII str, or literals"],
                outside=["inputs longer than the stated byte lengths", "DirEntry::file_unix_name is checked under C14 (directory records)",
                         "UnixStr::from_str_checked's panic on ill-terminated input is its documented const-context rejection and is expected"]),
    "C11": dict(assumptions=COMMON + ["reference functions for find/prefix/suffix/join/parent/file-name are the 10-20 line "
                                      "definitions in engine_k/k_rusl/src/util.rs and c11.rs, written from the property text "
                                      "and the repository's doc comments"],
                outside=["operands longer than the stated byte lengths", "path_join_fmt is covered under C10/C11 with "
                         "literal and symbolic str operands only"]),
}


def c09_uncovered():
    """rusl wrappers (pub fns whose body contains `syscall!`) that no C09 obligation names."""
    import re
    from .common import REPO
    wrappers = set()
    for root, _, fs in os.walk(os.path.join(REPO, "rusl", "src")):
        for f in fs:
            if not f.endswith(".rs"):
                continue
            s = open(os.path.join(root, f)).read()
            for m in re.finditer(r"pub (?:unsafe )?fn (\w+)\s*(?:<[^>]*>)?\s*\(", s):
                i = s.find("{", m.end())
                if i < 0:
                    continue
                depth, j = 1, i + 1
                while depth and j < len(s):
                    depth += {"{": 1, "}": -1}.get(s[j], 0)
                    j += 1
                body = s[i:j]
                sig = s[m.start():i]
                if "syscall!" in body and "#[cfg(test)]" not in s[max(0, m.start() - 200):m.start()] and ";" not in sig:
                    wrappers.add(m.group(1))
    named = set()
    for ob in kani.discover("C09"):
        for fn in ob.fns:
            named.add(fn.split("::")[-1])
    return sorted(wrappers - named), len(wrappers)


def dispatch(prop, tier, seed, only, replay_path, jobs):
    if replay_path:
        p = replay_path if os.path.isabs(replay_path) else os.path.join(VERIF, replay_path)
        return kani.replay_from_file(p)
    if prop in ("C01", "C02"):
        from . import mcheck
        # engine M needs z3: re-exec under the tooling interpreter if necessary
        return mcheck.check(prop, tier, seed, jobs)
    if prop == "C06" and "C06" not in K_PROPS:
        K_PROPS["C06"] = K_PROPS["C05"]
    if prop in K_PROPS:
        cfg = dict(K_PROPS[prop])
        if prop == "C09":
            unc, total = c09_uncovered()
            cfg["outside"] = cfg.get("outside", []) + ["rusl wrappers found in the current source without a harness (%d of %d): %s"
                                                       % (len(unc), total, ", ".join(unc) or "none")]
            log("[C09] %d wrappers containing syscall! in /repo/rusl/src; without harness: %s" % (total, ", ".join(unc) or "none"))
        return kani.check_property(prop, tier, seed, only=only, jobs=jobs, assumptions=cfg.get("assumptions"),
                                   outside=cfg.get("outside"))
    log("unknown or unclaimed property %s" % prop)
    return 2
