"""Per-property dispatch: which engine decides which property, with the assumptions recorded in evidence."""
import os

from . import kani
from .common import VERIF, log

KERNEL_ASSUMPTIONS = [
    "the `sc` crate (one `syscall` instruction per function) is replaced through [patch.crates-io] by /verif/engine_k/sc, "
    "whose syscallN functions enter a symbolic kernel; rusl, tiny-std, tiny-start, tiny-cli are compiled unchanged from /repo",
]
COMMON = [
    "Kani 0.68.0 / CBMC 6.11.0 / cadical are trusted; results hold only inside the stated bounds (sizes, unwindings)",
    "x86_64 only; dev profile with overflow checks as Kani models it (counterexamples are replayed natively)",
]

K_PROPS = {
    "C19": dict(assumptions=COMMON + KERNEL_ASSUMPTIONS + [
                    "clock_gettime model: arbitrary normalised instants, non-decreasing (the kernel's guarantee is assumed, not checked)",
                    "nanosleep model: completes, or -EINTR after sleeping any part with the exact remainder written; <= 3 interruptions",
                    "exactness oracle is stated without multiplication in 128-bit arithmetic (carry pairs), see c19.rs"],
                outside=["that the real kernel's monotonic clock is monotonic; vDSO agreement with the syscall (kernel-provided code)",
                         "wall-clock lower bound of sleep on a real kernel (follows from the remainder protocol checked here plus the kernel contract)"]),
    "C10": dict(assumptions=COMMON + ["alloc::fmt::format is executed for real (no stub) at the stated operand sizes",
                                      "format operands are one `{}` of a symbolic ASCII str, or literals"],
                outside=["inputs longer than the stated byte lengths", "DirEntry::file_unix_name is checked under C14 (directory records)",
                         "UnixStr::from_str_checked's panic on ill-terminated input is its documented const-context rejection and is expected"]),
    "C11": dict(assumptions=COMMON + ["reference functions for find/prefix/suffix/join/parent/file-name are the 10-20 line "
                                      "definitions in engine_k/k_rusl/src/util.rs and c11.rs, written from the property text "
                                      "and the repository's doc comments"],
                outside=["operands longer than the stated byte lengths", "path_join_fmt is covered under C10/C11 with "
                         "literal and symbolic str operands only"]),
}


def dispatch(prop, tier, seed, only, replay_path, jobs):
    if replay_path:
        p = replay_path if os.path.isabs(replay_path) else os.path.join(VERIF, replay_path)
        return kani.replay_from_file(p)
    if prop in K_PROPS:
        cfg = K_PROPS[prop]
        return kani.check_property(prop, tier, seed, only=only, jobs=jobs, assumptions=cfg.get("assumptions"),
                                   outside=cfg.get("outside"))
    log("unknown or unclaimed property %s" % prop)
    return 2
