"""Engine M front end: schedule properties decided by BMC over automata extracted from MIR (engine_m/)."""
import json
import os
import sys
import time

from .common import VERIF, SCRATCH, REPLAY_DIR, NCPU, log, write_evidence, known_entries

sys.path.insert(0, os.path.join(VERIF, "engine_m"))

QUERIES = ("mutex", "race", "deadlock", "panic", "try")

NORACE = {"queries": ["mutex", "deadlock", "panic", "try"]}
RACE = {"queries": ["race"]}

# (programs, K, per-query timeout seconds[, options])
CONFIGS = {
    "C01": {
        "kind": "mutex",
        "quick": [
            (["m_lock_w", "m_lock_w"], 30, 900),
            (["m_lock_w_lock_r", "m_lock_w"], 28, 900),
            (["m_try_w", "m_lock_w"], 26, 900),
            (["m_try_then_lock_w", "m_try_w"], 28, 900),
            (["m_lock_w", "m_lock_w", "m_lock_w"], 24, 1200),
        ],
        "thorough": [
            (["m_lock_w", "m_lock_w"], 40, 3000),
            # the happens-before query at K=36 gave no verdict in 3000 s: it runs at K=30
            (["m_lock_w_lock_r", "m_lock_w_lock_r"], 36, 3000, NORACE),
            (["m_lock_w_lock_r", "m_lock_w_lock_r"], 30, 3000, RACE),
            (["m_try_then_lock_w", "m_lock_w"], 32, 3000),
            (["m_lock_w", "m_lock_w", "m_lock_w"], 28, 3400),
            (["m_try_w", "m_lock_w", "m_lock_w"], 26, 3400),
            (["m_lock_w", "m_lock_w", "m_lock_w", "m_lock_w"], 22, 3400),
        ],
    },
}

CONFIGS["C02"] = {
    "kind": "rwlock",
    # the happens-before (race) query is several times more expensive than the others: it runs at a smaller K
    "quick": [
        (["rw_read", "rw_write"], 20, 1500, NORACE),
        (["rw_read", "rw_write"], 16, 1500, RACE),
        (["rw_write", "rw_write"], 20, 1500, NORACE),
        (["rw_write", "rw_write"], 16, 1500, RACE),
        (["rw_read", "rw_read"], 18, 900, NORACE),
        (["rw_try_read", "rw_write"], 18, 900, NORACE),
        (["rw_try_write", "rw_read"], 18, 900, NORACE),
        # bug hunting only: three threads (two writers and a reader: the writer-or-readers hand-off); a lost wake-up shows
        # as sat within minutes, but unsat is out of reach of the solver at this size - no verdict is recorded as undecided
        (["rw_write", "rw_write", "rw_read"], 18, 420, {"queries": ["deadlock"], "hunt": True}),
    ],
    "thorough": [
        (["rw_read", "rw_write"], 28, 3400, NORACE),
        (["rw_write", "rw_write"], 28, 3400, NORACE),
        (["rw_read", "rw_write"], 20, 3400, RACE),
        (["rw_write", "rw_write"], 20, 3400, RACE),
        (["rw_read", "rw_read"], 24, 3400, NORACE),
        (["rw_try_read", "rw_write"], 24, 3400),
        (["rw_try_write", "rw_read"], 24, 3400),
        (["rw_write", "rw_write", "rw_read"], 26, 3400, {"queries": ["deadlock", "mutex"], "hunt": True}),
        (["rw_read", "rw_read", "rw_write"], 22, 3400, {"queries": ["deadlock", "mutex"], "hunt": True}),
        (["rw_try_read", "rw_try_write", "rw_write"], 20, 3400, {"queries": ["deadlock", "mutex", "try"], "hunt": True}),
    ],
}

ENV_MODEL = [
    "interleaving semantics: one visible operation (atomic op, futex system call, access to protected data) per step; purely local MIR between two visible operations is executed as one big step",
    "futex: WAIT(addr,val) returns -EAGAIN at once if *addr != val, else parks the thread on (addr, private flag); a parked thread resumes when woken by a WAKE on the same key or, as an optional move, spuriously with 0 or -EINTR; WAKE(addr,n) wakes min(n, waiters) threads chosen by the solver and returns the count; op code and flags are taken from the register operands of the real `asm!` terminator",
    "compare_exchange_weak may fail spuriously (solver's choice)",
    "memory model: sequentially consistent interleavings plus happens-before tracking with vector clocks (release store/RMW publishes, acquire load/RMW joins, relaxed RMW continues a release sequence, relaxed store breaks it); non-SC outcomes of relaxed atomics are not explored",
    "spin loops: the literal iteration count is replaced by a symbolic budget in {0,1} (stutter equivalence: the loop body is one relaxed load without side effect)",
    "trusted builtins: atomic intrinsics, spin-loop hint, rusl::Error::with_code",
    "VERIF_SEED is recorded but has no influence: every verdict is a solver result over all schedules within the stated bounds, nothing is sampled",
]


def check(prop, tier, seed, jobs=None):
    import run as mrun
    t0 = time.time()
    cfg = CONFIGS[prop]
    tiers = ("quick",) if tier == "quick" else ("quick", "thorough")
    try:
        mirs = mrun.dump_mir()
    except Exception as e:  # noqa
        log("INCONCLUSIVE property=%s: MIR dump failed: %s" % (prop, str(e)[-800:]))
        return 2
    log("[M] MIR regenerated from %s: tiny_std %.1fs, programs %.1fs" % (mrun.REPO, mirs["tiny_std_s"], mirs["programs_s"]))
    tasks = []
    for tr in tiers:
        for ent in cfg[tr]:
            progs, K, to = ent[0], ent[1], ent[2]
            opts = ent[3] if len(ent) > 3 else {}
            hunt = bool(opts.get("hunt"))
            if not hunt:
                tasks.append(dict(kind=cfg["kind"], progs=progs, K=K, query="reach", timeout=min(to, 600), mirs=mirs, tier=tr, hunt=False))
            for q in opts.get("queries", QUERIES):
                if q == "try" and not any("try" in p for p in progs):
                    continue
                tasks.append(dict(kind=cfg["kind"], progs=progs, K=K, query=q, timeout=to, mirs=mirs, tier=tr, hunt=hunt))
    tasks.sort(key=lambda t: -t["timeout"])
    jobs = jobs or int(os.environ.get("VERIF_JOBS", max(2, NCPU - 2)))
    results = mrun.run_tasks(tasks, jobs)
    violations, inconclusive, undecided = [], [], []
    os.makedirs(REPLAY_DIR, exist_ok=True)
    for r in results:
        name = "%s K=%d %s" % ("+".join(r["progs"]), r["K"], r["query"])
        if r.get("static_violations") and r["query"] == "reach":
            path = os.path.join(REPLAY_DIR, "%s__static__%s.json" % (prop, "_".join(r["progs"])))
            json.dump({"property": prop, "engine": "M", "static_violations": r["static_violations"]}, open(path, "w"), indent=1)
            violations.append((name, path, "; ".join(r["static_violations"])))
        if r.get("hunt") and r["result"] in ("unknown", None):
            undecided.append(name)
        elif r["result"] in ("error", "unknown", None):
            inconclusive.append((name, r.get("error") or "solver gave no verdict within %ds" % r["timeout"]))
        elif r["query"] == "reach":
            if r["result"] != "sat":
                inconclusive.append((name, "vacuity: no schedule of <= K steps lets every thread finish (K too small)"))
        elif r["result"] == "sat":
            path = os.path.join(REPLAY_DIR, "%s__%s__K%d__%s.json" % (prop, "_".join(r["progs"]), r["K"], r["query"]))
            json.dump({"property": prop, "engine": "M", "programs": r["progs"], "K": r["K"], "violated": r.get("violated"),
                       "schedule": r.get("trace"), "how_to_replay": "./check %s --replay %s" % (prop, os.path.relpath(path, VERIF))},
                      open(path, "w"), indent=1)
            violations.append((name, path, "violated: %s" % r.get("violated")))
    for name, path, why in violations:
        log("VIOLATION property=%s replay=%s" % (prop, os.path.relpath(path, VERIF)))
        log("  %s: %s" % (name, why))
    for name, why in inconclusive:
        log("INCONCLUSIVE property=%s query=%s %s" % (prop, name, str(why)[:300]))
    for name in undecided:
        log("UNDECIDED (bug-hunting query, not counted): %s" % name)
    bad_q = [r for r in results if r["query"] != "reach"]
    reach = [r for r in results if r["query"] == "reach"]
    nontrivial_cfgs = set("+".join(r["progs"]) + str(r["K"]) for r in reach if r["result"] == "sat")
    samples = [{k: v for k, v in r.items() if k in ("kind", "progs", "K", "query", "result", "solve_s", "build_s", "cps", "paths", "state_bits",
                                                    "tier", "violated", "hunt")} for r in sorted(results, key=lambda r: (r["progs"], r["K"], r["query"]))]
    funcs = sorted(set(f for r in results for f in r.get("functions", [])))
    coverage = {
        "evaluations": len(results),
        "distinct_nontrivial": sum(1 for r in bad_q if r["result"] == "unsat" and "+".join(r["progs"]) + str(r["K"]) in nontrivial_cfgs),
        "rule": "one evaluation = one SMT query over the K-step unrolling of the thread automata extracted from the MIR of the real "
                "functions; the scheduler choice, wake choice, spurious returns and weak-CAS failures of every step are free variables. "
                "A property query (unsat = holds for every schedule of <= K visible steps) counts as non-trivial only if the twin "
                "reachability query of the same configuration ('all threads finish within K') is sat",
        "samples": samples,
        "states": sum(r.get("cps", 0) for r in reach),
        "transitions": sum(r.get("paths", 0) for r in reach),
        "traces_validated_against_impl": 0,
        "obligations": len(bad_q),
        "discharged": sum(1 for r in bad_q if r["result"] == "unsat"),
        "checker_cmd": "z3 (python API, tactic simplify;propagate-values;solve-eqs;bit-blast;sat) over engine_m/bmc.py unrolling",
        "solver_time_s": round(sum(r.get("solve_s", 0) or 0 for r in results), 1),
        "functions_encoded": funcs,
        "trusted_calls": sorted(set(f for r in results for f in r.get("trusted_calls", []))),
        "spin_rewritten_in": sorted(set(f for r in results for f in r.get("spin_rewritten", []))),
        "bounds": ["%s: K=%d visible steps%s" % ("+".join(e[0]), e[1], (" " + json.dumps(e[3])) if len(e) > 3 else "") for tr in tiers for e in cfg[tr]],
        "undecided_bug_hunting_queries": undecided,
        "outside_claim": ["schedules longer than K visible steps", "more threads than listed", "fairness / starvation",
                          "non-SC behaviours of relaxed atomics", "counterexample schedules are reported from the model (step list in the replay file); native replay by a deterministic scheduler is not implemented"],
        "inconclusive": ["%s: %s" % (n, str(w)[:200]) for n, w in inconclusive],
    }
    write_evidence(prop, tier, seed, "model_checking", coverage, time.time() - t0, len(violations), ENV_MODEL)
    if violations:
        return 1
    if inconclusive:
        return 2
    log("OK property=%s tier=%s: %d queries unsat over %d configurations, %.0fs" % (prop, tier, coverage["discharged"], len(reach), time.time() - t0))
    return 0
