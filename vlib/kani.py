"""Engine K: run Kani harnesses (crates under /verif/engine_k, path-dependent on /repo), classify results,
replay counterexamples natively with `cargo kani playback`, and collect evidence."""
import concurrent.futures as cf
import json
import os
import re
import shlex
import shutil
import time
import threading

from .common import (VERIF, REPO, SCRATCH, REPLAY_DIR, NCPU, log, run, repo_fingerprint, known_entries,
                     write_evidence)

# VERIF_ENGINE_K: used only by tools/mutant_run.sh to evaluate a patched COPY of the repository without touching /repo
ENGINE_K = os.environ.get("VERIF_ENGINE_K", os.path.join(VERIF, "engine_k"))
OB_RE = re.compile(r"^\s*//\s*@ob\s+(\S+)\s+(\S+)\s+(\S+)\s*(.*)$")
KV_RE = re.compile(r'(\w+)=("([^"]*)"|\S+)')


class Ob:
    def __init__(self, prop, tier, crate, module, fn, attrs, src):
        self.prop, self.tier, self.crate, self.module, self.fn = prop, tier, crate, module, fn
        self.attrs, self.src = attrs, src
        self.harness = "%s::%s" % (module, fn)
        self.timeout = int(attrs.get("timeout", 600))
        self.mem = float(attrs.get("mem", 24))
        # memory the scheduler reserves for this obligation: the declared limit for harnesses known to be heavy
        # (mem= given), a small default otherwise (most harnesses stay below 3 GB)
        self.reserve = float(attrs["mem"]) * 0.8 if "mem" in attrs else 5.0
        self.known = attrs.get("known")
        self.fns = [f for f in attrs.get("fns", "").split(",") if f]
        self.bound = attrs.get("bound", "")
        self.outside = attrs.get("outside", "")
        self.stubs = attrs.get("stubs", "")
        self.extra = attrs.get("kani", "")  # extra cargo-kani arguments
        self.nocover = attrs.get("nocover") == "1"
        # replay=none: the counterexample is a choice of order / kernel behaviour under stubs that a native unit test cannot
        # reproduce (no real threads in the playback); a failing check is then reported from the solver's verdict alone
        self.noreplay = attrs.get("replay") == "none"
        self.allow = attrs.get("allow")  # failures whose description contains this text are expected panics

    @property
    def name(self):
        return "%s/%s" % (self.crate, self.harness)


def discover(prop=None):
    obs = []
    for crate in sorted(os.listdir(ENGINE_K)):
        srcdir = os.path.join(ENGINE_K, crate, "src")
        if crate == "sc" or not os.path.isdir(srcdir):
            continue
        for root, _, files in os.walk(srcdir):
            for f in sorted(files):
                if not f.endswith(".rs"):
                    continue
                p = os.path.join(root, f)
                module = os.path.splitext(os.path.relpath(p, srcdir))[0].replace("/", "::")
                for line in open(p):
                    m = OB_RE.match(line)
                    if not m:
                        continue
                    attrs = {}
                    for k, v, q in KV_RE.findall(m.group(4)):
                        attrs[k] = q if v.startswith('"') else v
                    ob = Ob(m.group(1), m.group(2), crate, attrs.get("mod", module), m.group(3), attrs, p)
                    if prop is None or ob.prop == prop:
                        obs.append(ob)
    return obs


def target_dir(crate):
    """Scratch target dir for a harness crate; wiped when /repo's sources changed since it was built."""
    d = os.path.join(SCRATCH, "k", crate)
    os.makedirs(d, exist_ok=True)
    return d


def prepare_targets(crates):
    fp = repo_fingerprint()
    for c in crates:
        d = target_dir(c)
        stamp = os.path.join(d, ".repo_fingerprint")
        old = open(stamp).read() if os.path.exists(stamp) else None
        if old != fp:
            shutil.rmtree(d, ignore_errors=True)
            os.makedirs(d, exist_ok=True)
            with open(stamp, "w") as fh:
                fh.write(fp)
    return fp


def build_crate(crate, logdir):
    """Compile the crate (and /repo's crates it depends on) once so that parallel harness runs only re-link."""
    cdir = os.path.join(ENGINE_K, crate)
    lock = os.path.join(cdir, "Cargo.lock")
    if not os.path.exists(lock):
        shutil.copy(os.path.join(REPO, "Cargo.lock"), lock)
    cmd = "cargo kani --target-dir %s --only-codegen %s" % (shlex.quote(target_dir(crate)), crate_flags(crate))
    rc, out, dt, to = run(cmd, cwd=cdir, timeout=1800, out_path=os.path.join(logdir, "build_%s.log" % crate))
    ok = rc == 0 and not to
    return ok, dt, out


def crate_flags(crate, playback=False):
    f = os.path.join(ENGINE_K, crate, "kani_flags")
    flags = open(f).read().strip() if os.path.exists(f) else ""
    if playback:
        # `cargo kani playback` accepts only -Z flags
        toks = flags.split()
        keep = []
        i = 0
        while i < len(toks):
            if toks[i] == "-Z" and i + 1 < len(toks):
                if toks[i + 1] != "unstable-options":
                    keep += toks[i:i + 2]
                i += 2
            else:
                i += 1
        flags = " ".join(keep)
    return flags


CHECK_RE = re.compile(r"^Check (\d+): (.+)\n\t - Status: (\S+)\n\t - Description: \"(.*)\"\n\t - Location: (.*)$", re.M)


def parse_log(out):
    res = {"verdict": None, "checks": 0, "failed": [], "covers": [], "success": 0, "undetermined": 0,
           "verification_time": None, "unreachable": 0}
    for m in CHECK_RE.finditer(out):
        _, name, status, desc, loc = m.groups()
        res["checks"] += 1
        if ".cover." in name:
            res["covers"].append((desc, status))
            continue
        if status == "SUCCESS":
            res["success"] += 1
        elif status == "FAILURE":
            res["failed"].append({"check": name, "description": desc.strip('"'), "location": loc})
        elif status == "UNREACHABLE":
            res["unreachable"] += 1
        else:
            res["undetermined"] += 1
    if "VERIFICATION:- SUCCESSFUL" in out:
        res["verdict"] = "SUCCESSFUL"
    elif "VERIFICATION:- FAILED" in out:
        res["verdict"] = "FAILED"
    m = re.search(r"Verification Time: ([0-9.]+)s", out)
    if m:
        res["verification_time"] = float(m.group(1))
    return res


PLAYBACK_RE = re.compile(r"Concrete playback unit test for `([^`]+)`:\n```\n(.*?)```", re.S)


def playback_tests(out, failed_descriptions=()):
    """(kind, description, test source, fn name) for each generated unit test that belongs to a failed check.
    Kani names a test by the hash of its values and prints it once: when the trace of a failed assertion has the same values as
    the trace of a cover witness, only the cover's copy appears.  If no test of a failed check was printed, the cover tests
    are returned instead, relabelled with the failed checks' descriptions - the native run decides whether one of them panics
    with that message."""
    tests, covers = [], []
    for _, src in PLAYBACK_RE.findall(out):
        m = re.search(r"/// Check for `(\w+)`: \"(.*)\"", src)
        kind, desc = (m.group(1), m.group(2)) if m else ("?", "?")
        fn = re.search(r"fn (kani_concrete_playback_\w+)\(", src)
        t = {"kind": kind, "description": desc, "src": src, "fn": fn.group(1) if fn else None}
        (covers if kind == "cover" else tests).append(t)
    if not tests and covers and failed_descriptions:
        for t in covers:
            t["kind"] = "assertion(via cover witness values)"
            t["cover"] = t["description"]
            t["description"] = " | ".join(failed_descriptions)
        return covers
    return tests


def run_harness(ob, logdir):
    """Two phases: (1) decide, without trace generation (the concrete-playback options make CBMC keep a trace per
    property: measured 4.4 GB / 160 s without against 43.8 GB / OOM with, for the same passing harness); (2) only if a
    check failed, run again with concrete playback to obtain the counterexample as a unit test."""
    r = _run_harness(ob, logdir, playback=False)
    if r["class"] == "fail" and not ob.noreplay:
        r2 = _run_harness(ob, logdir, playback=True)
        if r2["class"] == "fail":
            r2["wall_s"] += r["wall_s"]
            return r2
        r["why"] += " [second run for the counterexample values: %s %s]" % (r2["class"], r2["why"][:120])
    return r


def _run_harness(ob, logdir, playback):
    cdir = os.path.join(ENGINE_K, ob.crate)
    logf = os.path.join(logdir, "%s__%s%s.log" % (ob.crate, ob.harness.replace("::", "__"), ".playback" if playback else ""))
    cmd = ("cargo kani --target-dir %s --harness %s --exact %s %s %s"
           % (shlex.quote(target_dir(ob.crate)), shlex.quote(ob.harness),
              "-Z concrete-playback --concrete-playback=print" if playback else "", crate_flags(ob.crate), ob.extra))
    rc, out, dt, to = run(cmd, cwd=cdir, timeout=ob.timeout, mem_gb=ob.mem, out_path=logf)
    r = parse_log(out)
    r.update({"ob": ob, "rc": rc, "wall_s": dt, "timed_out": to, "log": logf, "out": out})
    # classification
    unwinding = [f for f in r["failed"] if "unwinding assertion" in f["description"]]
    unsupported = [f for f in r["failed"] if "is not currently supported by Kani" in f["description"]
                   or "unsupported" in f["description"].lower()]
    real_fail = [f for f in r["failed"] if f not in unwinding and f not in unsupported
                 and not (ob.allow and ob.allow in f["description"])]
    expected_only = bool(r["failed"]) and not real_fail and not unwinding and not unsupported
    unsat_covers = [d for d, s in r["covers"] if s != "SATISFIED"]
    if to:
        r["class"] = "inconclusive"; r["why"] = "timeout after %ds" % ob.timeout
    elif r["verdict"] is None:
        r["class"] = "inconclusive"; r["why"] = "no verdict (rc=%s; out of memory, build error or tool crash)" % rc
    elif real_fail:
        # a failed assertion found within the unwinding bound is a genuine trace even if other paths were cut
        r["class"] = "fail"; r["why"] = "; ".join(sorted(set(f["description"] for f in real_fail))[:6])
    elif unwinding or unsupported:
        r["class"] = "inconclusive"
        r["why"] = "unwinding/unsupported-construct assertion failed: " + "; ".join(
            sorted(set(f["description"] + " @ " + f["location"] for f in unwinding + unsupported))[:4])
    elif real_fail:
        r["class"] = "fail"; r["why"] = "; ".join(sorted(set(f["description"] for f in real_fail))[:6])
    elif "Out of memory" in out or "std::bad_alloc" in out or "run out of memory" in out or "Status: ERROR" in out:
        r["class"] = "inconclusive"; r["why"] = "solver ran out of memory (limit %g GB)" % ob.mem
    elif r["verdict"] == "FAILED" and not expected_only:
        r["class"] = "inconclusive"; r["why"] = "FAILED without a failed check that could be parsed"
    elif r["undetermined"]:
        r["class"] = "inconclusive"; r["why"] = "%d checks undetermined" % r["undetermined"]
    elif unsat_covers and not ob.nocover:
        r["class"] = "vacuous"; r["why"] = "cover witnesses not satisfied: " + "; ".join(unsat_covers)
    else:
        r["class"] = "pass"; r["why"] = ""
    r["real_fail"] = real_fail
    return r


MEM_CLASS = ("pointer_dereference", "pointer", "dereference failure", "pointer outside", "pointer NULL",
             "memcpy", "memmove", "memcmp", "offset", "pointer relation", "pointer arithmetic", "out of bounds")


def replay(ob, tests, tag, profile_release=False):
    """Replay counterexample unit tests natively (rustc-compiled /repo code + concrete kernel script).
    Returns list of (test, reproduced: bool, message)."""
    work = os.path.join(SCRATCH, "replay", "%s_%d" % (tag, os.getpid()))
    shutil.rmtree(work, ignore_errors=True)
    os.makedirs(work)
    results = []
    try:
        for sub in ("sc", ob.crate):
            shutil.copytree(os.path.join(ENGINE_K, sub), os.path.join(work, sub))
        src = os.path.join(work, ob.crate, os.path.relpath(ob.src, os.path.join(ENGINE_K, ob.crate)))
        with open(src, "a") as fh:
            fh.write("\n#[cfg(test)]\nmod verif_playback {\n    #[allow(unused_imports)]\n    use super::*;\n    #[allow(unused_imports)]\n    use crate::%s::*;\n" % ob.module)
            for t in tests:
                fh.write(t["src"])
            fh.write("}\n")
        env = {"CARGO_TARGET_DIR": os.path.join(SCRATCH, "k", ob.crate + "_playback"), "RUST_BACKTRACE": "0"}
        # one process per test: the symbolic kernel keeps its state in statics
        for t in tests:
            cmd = ("cargo kani playback -Z concrete-playback %s --lib -- %s --nocapture --test-threads 1"
                   % (crate_flags(ob.crate, playback=True), t["fn"]))
            rc, out, dt, to = run(cmd, cwd=os.path.join(work, ob.crate), timeout=900, env=env)
            if "concrete_playback.rs" in out and "concrete values left over" in out:
                st = "mismatch"   # the native run consumed fewer symbolic values than the solver's trace: not a reproduction
            elif re.search(r"test result: FAILED\. 0 passed; 1 failed", out):
                st = "FAILED"
            elif re.search(r"test result: ok\. 1 passed", out):
                st = "ok"
            else:
                st = "?"
            msg = ""
            pm = re.search(r"(thread '[^\n]*panicked at [^\n]*\n[^\n]*)", out)
            if pm:
                msg = pm.group(1).strip().replace("\n", " | ")[:400]
            hist = "\n".join(l for l in out.splitlines() if l.startswith(("descriptor table:", "  call ", "trace:")))
            if hist:
                msg += "\n" + hist[:3000]
            descs = [d.strip('"') for d in (t.get("description") or "").split(" | ") if d.strip('"')]
            panicked_with_it = st != "mismatch" and "panicked at" in out and any(d in out for d in descs)
            ok = bool(panicked_with_it) if t.get("cover") else (st == "FAILED" or bool(panicked_with_it))
            results.append((t, ok, msg if msg else ("test result: %s; tail: %s" % (st, out[-300:]))))
    finally:
        shutil.rmtree(work, ignore_errors=True)
    return results


def write_replay_file(prop, r, reps):
    os.makedirs(REPLAY_DIR, exist_ok=True)
    ob = r["ob"]
    path = os.path.join(REPLAY_DIR, "%s__%s__%s.json" % (prop, ob.crate, ob.harness.replace("::", "__")))
    data = {
        "property": prop, "engine": "K", "crate": ob.crate, "harness": ob.harness, "source": os.path.relpath(ob.src, VERIF),
        "failed_checks": r["real_fail"],
        "counterexamples": [{"check": t["description"], "kind": t["kind"], "unit_test": t["src"], "test_fn": t["fn"],
                             "reproduced_natively": ok, "native_message": msg} for t, ok, msg in reps],
        "how_to_replay": "./check %s --replay %s" % (prop, os.path.relpath(path, VERIF)),
    }
    with open(path, "w") as fh:
        json.dump(data, fh, indent=1)
    return path


def replay_from_file(path):
    data = json.load(open(path))
    obs = [o for o in discover(data["property"]) if o.crate == data["crate"] and o.harness == data["harness"]]
    if not obs:
        log("replay: harness %s not found" % data["harness"])
        return 2
    if obs[0].noreplay:
        # no native replay for this harness: "replay" = decide the harness again on the current tree
        logdir = os.path.join(SCRATCH, "logs", "replay")
        os.makedirs(logdir, exist_ok=True)
        prepare_targets([obs[0].crate])
        ok, dt, out = build_crate(obs[0].crate, logdir)
        if not ok:
            log("replay: harness crate does not build")
            return 2
        r = _run_harness(obs[0], logdir, playback=False)
        log("replay (solver re-run of %s): %s %s" % (obs[0].harness, r["class"], r["why"][:300]))
        return 1 if r["class"] == "fail" else (0 if r["class"] == "pass" else 2)
    tests = [{"src": c["unit_test"], "fn": c["test_fn"], "kind": c["kind"], "description": c["check"]}
             for c in data["counterexamples"]]
    reps = replay(obs[0], tests, "manual")
    any_rep = False
    for t, ok, msg in reps:
        log("replay %s: %s — %s" % (t["fn"], "REPRODUCED" if ok else "not reproduced", msg))
        any_rep = any_rep or ok
    return 1 if any_rep else 0


def check_property(prop, tier, seed, only=None, jobs=None, assumptions=None, outside=None, level_rule=None):
    t0 = time.time()
    obs_all = discover(prop)
    tiers = ("quick",) if tier == "quick" else ("quick", "thorough")
    obs = [o for o in obs_all if o.tier in tiers and (only is None or only in o.harness)]
    if not obs:
        log("no obligations for %s at tier %s" % (prop, tier))
        return 2
    known = {e["key"]: e for e in known_entries(prop)}
    logdir = os.path.join(SCRATCH, "logs", prop)
    shutil.rmtree(logdir, ignore_errors=True)
    os.makedirs(logdir, exist_ok=True)
    crates = sorted(set(o.crate for o in obs))
    fp = prepare_targets(crates)
    for c in crates:
        ok, dt, out = build_crate(c, logdir)
        log("[build] %s: %s in %.0fs" % (c, "ok" if ok else "FAILED", dt))
        if not ok:
            log(out[-3000:])
            log("INCONCLUSIVE property=%s: harness crate %s does not compile against /repo's current tree" % (prop, c))
            return 2
    jobs = jobs or int(os.environ.get("VERIF_JOBS", max(2, min(12, NCPU - 2))))
    results = []
    # admission control by memory: the machine has no swap, an over-committed run ends in the kernel's OOM killer
    budget = float(os.environ.get("VERIF_MEM_GB", 54))
    cond = threading.Condition()
    in_use = [0.0]

    def admitted(o):
        need = min(o.reserve, budget)
        with cond:
            while in_use[0] + need > budget:
                cond.wait()
            in_use[0] += need
        try:
            return run_harness(o, logdir)
        finally:
            with cond:
                in_use[0] -= need
                cond.notify_all()

    with cf.ThreadPoolExecutor(max_workers=jobs) as ex:
        futs = {ex.submit(admitted, o): o for o in sorted(obs, key=lambda o: (-o.reserve, -o.timeout))}
        for f in cf.as_completed(futs):
            r = f.result()
            results.append(r)
            log("[%s] %-40s %-12s %6.1fs checks=%d %s" % (prop, r["ob"].harness, r["class"], r["wall_s"], r["checks"],
                                                          r["why"][:200]))
    results.sort(key=lambda r: r["ob"].harness)
    violations, inconclusive, known_hits, replays_done = [], [], [], 0
    for r in results:
        ob = r["ob"]
        is_known = ob.known and ob.known in known
        if r["class"] == "fail":
            tests = [] if ob.noreplay else playback_tests(r["out"], [f["description"] for f in r["real_fail"]])
            reps = replay(ob, tests, prop + "_" + ob.fn) if tests else []
            replays_done += len(reps)
            reproduced = [x for x in reps if x[1]]
            mem_only = all(any(k in f["description"] or k in f["check"] for k in MEM_CLASS) for f in r["real_fail"])
            path = write_replay_file(prop, r, reps)
            r["replay"] = path
            r["reproduced"] = len(reproduced)
            if is_known:
                known_hits.append((ob, known[ob.known], r))
            elif ob.noreplay:
                violations.append((ob, r, path, "solver verdict only: this harness has no native replay (order-level counterexample under stubs)"))
            elif reproduced or mem_only:
                violations.append((ob, r, path, "reproduced natively" if reproduced else
                                   "memory-safety class (not observable natively); solver trace only"))
            else:
                inconclusive.append((ob, "counterexample did not reproduce natively: %s" % r["why"]))
        elif r["class"] in ("inconclusive", "vacuous"):
            if is_known and r["class"] == "vacuous":
                # the known-region harness no longer reaches its witnesses: treat as gone, say nothing
                continue
            inconclusive.append((ob, r["class"] + ": " + r["why"]))
    for ob, e, r in known_hits:
        log("KNOWN-FINDING: property=%s %s [%s] (%s)" % (prop, e["what"], e["key"], r["why"][:160]))
    for ob, r, path, how in violations:
        log("VIOLATION property=%s replay=%s" % (prop, os.path.relpath(path, VERIF)))
        log("  harness %s: %s (%s)" % (ob.harness, r["why"][:300], how))
    for ob, why in inconclusive:
        log("INCONCLUSIVE property=%s harness=%s %s" % (prop, ob.harness, why[:300]))
    # evidence
    passed = [r for r in results if r["class"] == "pass"]
    nontrivial = [r for r in passed if r["covers"] and all(s == "SATISFIED" for _, s in r["covers"])]
    samples = []
    for r in results:
        ob = r["ob"]
        samples.append({
            "obligation": ob.name, "tier": ob.tier, "functions_encoded": ob.fns, "bound": ob.bound,
            "verdict": r["class"], "kani_verdict": r["verdict"], "properties_checked": r["checks"],
            "properties_failed": len(r["failed"]), "cover_witnesses": ["%s: %s" % (d, s) for d, s in r["covers"]],
            "solver_time_s": r["verification_time"], "wall_s": round(r["wall_s"], 1),
            "known_finding_key": ob.known, "outside_claim": ob.outside, "stubs": ob.stubs, "note": r["why"][:300],
        })
    coverage = {
        "evaluations": len(results),
        "distinct_nontrivial": len(nontrivial),
        "rule": level_rule or ("one evaluation = one bounded-model-checking query (Kani harness -> CBMC -> SAT) over the compiled "
                               "code of /repo with symbolic inputs; it is counted non-trivial when it passed AND every kani::cover! "
                               "reachability witness placed in the interesting regions of the input space was SATISFIED"),
        "samples": samples,
        "obligations": sum(r["checks"] for r in results),
        "discharged": sum(r["success"] for r in results),
        "traces_validated_against_impl": replays_done,
        "checker_cmd": "cargo kani --harness <h> --exact (Kani 0.68.0, CBMC 6.11.0, cadical)",
        "solver_time_s": round(sum(r["verification_time"] or 0 for r in results), 1),
        "functions_encoded": sorted(set(f for r in results for f in r["ob"].fns)),
        "bounds": sorted(set(r["ob"].bound for r in results if r["ob"].bound)),
        "outside_claim": sorted(set([r["ob"].outside for r in results if r["ob"].outside] + (outside or []))),
        "stubs": sorted(set(r["ob"].stubs for r in results if r["ob"].stubs)),
        "known_findings_hit": [e["key"] for _, e, _ in known_hits],
        "inconclusive": ["%s: %s" % (o.harness, w[:200]) for o, w in inconclusive],
        "repo_fingerprint": fp,
    }
    write_evidence(prop, tier, seed, "model_checking", coverage, time.time() - t0, len(violations),
                   assumptions or [])
    if violations:
        return 1
    if inconclusive:
        return 2
    log("OK property=%s tier=%s: %d obligations held (%d non-vacuous by cover witnesses), %d known findings, %.0fs"
        % (prop, tier, len(passed), len(nontrivial), len(known_hits), time.time() - t0))
    return 0
