"""Shared helpers for the /verif check driver: paths, repo fingerprint, evidence writer, known findings."""
import hashlib
import json
import os
import subprocess
import sys
import time

VERIF = os.path.dirname(os.path.dirname(os.path.abspath(__file__)))
REPO = os.environ.get("VERIF_REPO", "/repo")
SCRATCH = os.environ.get("VERIF_SCRATCH", "/var/tmp/verif-tiny-std")
EVIDENCE_DIR = os.environ.get("VERIF_EVIDENCE_DIR", os.path.join(VERIF, "evidence"))
REPLAY_DIR = os.environ.get("VERIF_REPLAY_DIR", os.path.join(VERIF, "replays"))
KNOWN_FILE = os.path.join(VERIF, "known_findings.json")
NCPU = os.cpu_count() or 4


def log(*a):
    print(*a, flush=True)


def repo_fingerprint():
    """Hash of every source file the checks compile from /repo's working tree."""
    h = hashlib.sha256()
    files = []
    for root, dirs, fs in os.walk(REPO):
        dirs[:] = [d for d in dirs if d not in (".git", "target")]
        for f in fs:
            if f.endswith((".rs", ".toml", ".lock", ".ld", ".s", ".S")):
                files.append(os.path.join(root, f))
    files.sort()
    for f in files:
        h.update(f.encode())
        try:
            with open(f, "rb") as fh:
                h.update(fh.read())
        except OSError:
            pass
    return h.hexdigest()


def load_known():
    try:
        with open(KNOWN_FILE) as fh:
            return json.load(fh)
    except FileNotFoundError:
        return {"findings": []}


def known_entries(prop):
    return [e for e in load_known().get("findings", []) if e.get("property") == prop and e.get("status") == "known"]


def write_evidence(prop, tier, seed, level, coverage, wall_s, violations, assumptions, extra=None):
    os.makedirs(EVIDENCE_DIR, exist_ok=True)
    ev = {
        "property_id": prop,
        "tier": tier,
        "seed": seed,
        "level": level,
        "coverage": coverage,
        "assumptions": assumptions,
        "wall_s": round(wall_s, 2),
        "violations": violations,
    }
    if extra:
        ev.update(extra)
    path = os.path.join(EVIDENCE_DIR, prop + ".json")
    tmp = path + ".tmp"
    with open(tmp, "w") as fh:
        json.dump(ev, fh, indent=1)
        fh.write("\n")
    os.replace(tmp, path)
    return path


def run(cmd, cwd=None, timeout=None, env=None, mem_gb=None, out_path=None):
    """Run a command with an address-space limit; returns (rc, output, seconds, timed_out)."""
    e = dict(os.environ)
    e["CARGO_NET_OFFLINE"] = "true"
    if env:
        e.update(env)
    pre = ""
    if mem_gb:
        pre = "ulimit -v %d; " % int(mem_gb * 1024 * 1024)
    if isinstance(cmd, (list, tuple)):
        import shlex
        cmd = " ".join(shlex.quote(c) for c in cmd)
    t0 = time.time()
    timed_out = False
    if out_path:
        outf = open(out_path, "wb")
    else:
        outf = subprocess.PIPE
    p = subprocess.Popen(["bash", "-c", pre + "exec " + cmd], cwd=cwd, env=e, stdout=outf, stderr=subprocess.STDOUT,
                         start_new_session=True)
    try:
        out, _ = p.communicate(timeout=timeout)
    except subprocess.TimeoutExpired:
        timed_out = True
        try:
            os.killpg(p.pid, 9)
        except ProcessLookupError:
            pass
        out, _ = p.communicate()
    dt = time.time() - t0
    if out_path:
        outf.close()
        with open(out_path, "rb") as fh:
            out = fh.read()
    return p.returncode, (out or b"").decode("utf-8", "replace"), dt, timed_out
