//! Stand-in for the `sc` crate (0.2.7) used only by /verif's Kani harness workspaces through
//! `[patch.crates-io]`.  rusl / tiny-std / tiny-start are compiled unchanged from /repo; the only
//! thing replaced is this leaf crate, whose `syscallN` functions are single `syscall` instructions
//! in the original.  Here they enter `vk::kernel`, the symbolic kernel.
#![no_std]
#![allow(clippy::missing_safety_doc)]

pub mod macros;
pub mod nr;
pub mod vk;

#[inline(never)]
pub unsafe fn syscall0(n: usize) -> usize {
    vk::kernel(n, [0, 0, 0, 0, 0, 0], 0)
}
#[inline(never)]
pub unsafe fn syscall1(n: usize, a1: usize) -> usize {
    vk::kernel(n, [a1, 0, 0, 0, 0, 0], 1)
}
#[inline(never)]
pub unsafe fn syscall2(n: usize, a1: usize, a2: usize) -> usize {
    vk::kernel(n, [a1, a2, 0, 0, 0, 0], 2)
}
#[inline(never)]
pub unsafe fn syscall3(n: usize, a1: usize, a2: usize, a3: usize) -> usize {
    vk::kernel(n, [a1, a2, a3, 0, 0, 0], 3)
}
#[inline(never)]
pub unsafe fn syscall4(n: usize, a1: usize, a2: usize, a3: usize, a4: usize) -> usize {
    vk::kernel(n, [a1, a2, a3, a4, 0, 0], 4)
}
#[inline(never)]
pub unsafe fn syscall5(n: usize, a1: usize, a2: usize, a3: usize, a4: usize, a5: usize) -> usize {
    vk::kernel(n, [a1, a2, a3, a4, a5, 0], 5)
}
#[inline(never)]
pub unsafe fn syscall6(
    n: usize,
    a1: usize,
    a2: usize,
    a3: usize,
    a4: usize,
    a5: usize,
    a6: usize,
) -> usize {
    vk::kernel(n, [a1, a2, a3, a4, a5, a6], 6)
}
