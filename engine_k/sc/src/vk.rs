//! The symbolic kernel.
//!
//! Every `syscallN` of the stand-in `sc` crate lands in [`kernel`].  The kernel keeps a call log, injects
//! faults at symbolic call indices with symbolic errno values, and models just enough of Linux for the
//! properties that need a resource model (descriptor table, clock, nanosleep, ...).  All results the real
//! kernel would write through pointer arguments are written through the pointer arguments.
//!
//! Contract lines (what the model promises, and nothing more) are listed in `CONTRACT` and copied into the
//! evidence files.
#![allow(static_mut_refs)]

use crate::nr;

pub const LOG: usize = 24;
pub const NFD: usize = 32;

pub const CONTRACT: &[&str] = &[
    "a failing call returns -errno with errno in 1..=4095 and has no other effect (except close, which releases the descriptor even when it reports an error, as Linux does)",
    "fault injection: any subset of call indices (bit mask over the first 32 calls) may fail, each with its own symbolic errno",
    "descriptor-creating calls return the lowest free descriptor; close(fd) frees it; a close of a descriptor that is not open returns -EBADF and is recorded",
    "clock_gettime(CLOCK_MONOTONIC) never decreases; tv_nsec in 0..10^9",
    "nanosleep either completes (returns 0) or is interrupted (-EINTR) after sleeping part of the request and then writes the exact remainder",
    "mmap hands out up to 4 regions (512 bytes each) from static arenas and records (addr,len); munmap must name a live region exactly, anything else is recorded as a bad unmap",
    "anything not modelled returns an unconstrained value in raw mode and 0 in model mode",
];

#[derive(Clone, Copy)]
pub struct Call {
    pub nr: usize,
    pub a: [usize; 6],
    pub ret: usize,
    pub failed: bool,
}

/// Per-syscall hook a harness may install: return Some(ret) to take the call over.
pub type Hook = fn(&mut K, usize, &[usize; 6]) -> Option<usize>;

pub struct K {
    /// false: every call returns a fresh unconstrained value and touches nothing (C09).
    pub model: bool,
    pub calls: usize,
    pub log: [Call; LOG],
    /// bit i set: the i-th call (0-based) fails
    pub fail_mask: u32,
    /// if non-zero every injected failure uses this errno, otherwise a fresh symbolic one each time
    pub fail_errno: usize,
    pub n_failed: usize,
    pub last_errno: usize,
    pub hook: Option<Hook>,
    /// C09: a second call is legitimate only as dup3's retry after -EBUSY; checked inside the kernel so that a
    /// wrapper that retries forever cannot escape the assertion
    pub retry_rule: bool,
    /// paths issuing more than this many calls are cut (bounded retries); 0 = no cap
    pub max_calls: usize,
    /// raw mode: 0 = any 64-bit value; 1 = errors only (execve); 2 = errno or a value in 0..=i32::MAX (calls
    /// whose success value is a descriptor or pid)
    pub raw_contract: u8,
    // --- descriptor table
    pub fd_open: u32,
    pub fd_initial: u32,
    pub fd_born: u32,
    pub bad_close: u32,
    pub foreign_close: u32,
    pub use_after_close: u32,
    // --- clock
    pub mono_s: i64,
    pub mono_ns: i64,
    pub clock_calls: u32,
    // --- nanosleep
    pub sleep_calls: u32,
    pub sleep_first_s: i64,
    pub sleep_first_ns: i64,
    pub sleep_rem_s: i64,
    pub sleep_rem_ns: i64,
    pub sleep_bad_request: bool,
    pub sleep_done: bool,
    pub sleep_max_intr: u32,
    // --- memory mappings (regions handed out of static arenas)
    pub maps: [Map; NMAP],
    pub n_maps: usize,
    pub bad_unmap: u32,
    // --- process
    pub forked: bool,
    /// 0: fork outcome symbolic; 1: this path is the child; 2: this path is the parent
    pub fork_force: u8,
    pub waited: u32,
    pub reaped: u32,
    pub reap_status: i32,
    pub in_child: bool,
    pub exited: bool,
    pub exit_code: usize,
}

pub const NMAP: usize = 4;
pub const ARENA_WORDS: usize = 64;
#[derive(Clone, Copy)]
pub struct Map {
    pub addr: usize,
    pub len: usize,
    pub live: bool,
}
#[repr(C, align(64))]
pub struct Arena(pub [u64; ARENA_WORDS]);
pub static mut ARENAS: [Arena; NMAP] = [Arena([0; ARENA_WORDS]), Arena([0; ARENA_WORDS]), Arena([0; ARENA_WORDS]), Arena([0; ARENA_WORDS])];

const CALL0: Call = Call { nr: 0, a: [0; 6], ret: 0, failed: false };

pub static mut KS: K = K {
    model: false,
    calls: 0,
    log: [CALL0; LOG],
    fail_mask: 0,
    fail_errno: 0,
    n_failed: 0,
    last_errno: 0,
    hook: None,
    retry_rule: false,
    max_calls: 0,
    raw_contract: 0,
    fd_open: 0b111,
    fd_initial: 0b111,
    fd_born: 0,
    bad_close: 0,
    foreign_close: 0,
    use_after_close: 0,
    mono_s: 0,
    mono_ns: 0,
    clock_calls: 0,
    sleep_calls: 0,
    sleep_first_s: 0,
    sleep_first_ns: 0,
    sleep_rem_s: 0,
    sleep_rem_ns: 0,
    sleep_bad_request: false,
    sleep_done: false,
    sleep_max_intr: 3,
    maps: [Map { addr: 0, len: 0, live: false }; NMAP],
    n_maps: 0,
    bad_unmap: 0,
    forked: false,
    fork_force: 0,
    waited: 0,
    reaped: 0,
    reap_status: 0,
    in_child: false,
    exited: false,
    exit_code: 0,
};

#[inline(always)]
pub fn ks() -> &'static mut K {
    unsafe { &mut *core::ptr::addr_of_mut!(KS) }
}

pub const AT_FDCWD: usize = (-100isize) as usize;
pub const EBADF: usize = 9;
pub const EINTR: usize = 4;
pub const EMFILE: usize = 24;

#[inline(always)]
pub fn err(e: usize) -> usize {
    0usize.wrapping_sub(e)
}

pub fn is_err(r: usize) -> bool {
    r > 0usize.wrapping_sub(4096)
}

impl K {
    /// Model mode with a symbolic set of failing call indices.
    pub fn model_with_faults(&mut self) {
        self.model = true;
        self.fail_mask = kani::any();
    }
    /// Model mode, at most one failing call (index symbolic, may be "none").
    pub fn model_with_one_fault(&mut self) {
        self.model = true;
        let at: u32 = kani::any();
        kani::assume(at <= 32);
        self.fail_mask = if at == 32 { 0 } else { 1u32 << at };
    }
    /// Model mode, at most two failing calls.
    pub fn model_with_two_faults(&mut self) {
        self.model = true;
        let a: u32 = kani::any();
        let b: u32 = kani::any();
        kani::assume(a <= 32 && b <= 32);
        let ma = if a == 32 { 0 } else { 1u32 << a };
        let mb = if b == 32 { 0 } else { 1u32 << b };
        self.fail_mask = ma | mb;
    }
    /// Start observing an operation: everything open now is "foreign" to it.
    pub fn begin_operation(&mut self) {
        self.calls = 0;
        self.n_failed = 0;
        self.fd_initial = self.fd_open;
        self.fd_born = 0;
        self.bad_close = 0;
        self.foreign_close = 0;
        self.use_after_close = 0;
    }
    pub fn model_no_faults(&mut self) {
        self.model = true;
        self.fail_mask = 0;
    }

    pub fn alloc_fd(&mut self) -> usize {
        let mut i = 0;
        while i < NFD {
            if self.fd_open & (1 << i) == 0 {
                self.fd_open |= 1 << i;
                self.fd_born |= 1 << i;
                return i;
            }
            i += 1;
        }
        err(EMFILE)
    }
    /// mmap: the next arena, if the request fits; exact (addr,len) bookkeeping
    pub fn mmap_alloc(&mut self, len: usize) -> usize {
        if self.n_maps >= NMAP || len == 0 || len > ARENA_WORDS * 8 {
            return err(12); // ENOMEM
        }
        let i = self.n_maps;
        let addr = unsafe { core::ptr::addr_of_mut!(ARENAS[i]) as usize };
        self.maps[i] = Map { addr, len, live: true };
        self.n_maps += 1;
        addr
    }
    /// munmap: must name a live mapping exactly
    pub fn munmap(&mut self, addr: usize, len: usize) -> usize {
        let mut i = 0;
        while i < NMAP {
            if self.maps[i].live && self.maps[i].addr == addr && self.maps[i].len == len {
                self.maps[i].live = false;
                return 0;
            }
            i += 1;
        }
        self.bad_unmap += 1;
        err(22)
    }
    pub fn live_maps(&self) -> usize {
        let mut c = 0;
        let mut i = 0;
        while i < NMAP {
            if self.maps[i].live {
                c += 1;
            }
            i += 1;
        }
        c
    }
    pub fn fd_is_open(&self, fd: usize) -> bool {
        fd < NFD && self.fd_open & (1 << fd) != 0
    }
    pub fn close_fd(&mut self, fd: usize) -> usize {
        if self.fd_is_open(fd) {
            if self.fd_born & (1 << fd) == 0 {
                self.foreign_close += 1;
            }
            self.fd_open &= !(1 << fd);
            0
        } else {
            self.bad_close += 1;
            err(EBADF)
        }
    }
    pub fn touch_fd(&mut self, fd: usize) {
        if fd == AT_FDCWD {
            return;
        }
        if !self.fd_is_open(fd) {
            self.use_after_close += 1;
        }
    }
    /// injected failures of this syscall number
    pub fn count_failed(&self, n: usize) -> usize {
        let mut c = 0;
        let mut i = 0;
        while i < LOG && i < self.calls {
            if self.log[i].nr == n && self.log[i].failed {
                c += 1;
            }
            i += 1;
        }
        c
    }
    /// calls (by index) with this syscall number
    pub fn count_nr(&self, n: usize) -> usize {
        let mut c = 0;
        let mut i = 0;
        while i < LOG && i < self.calls {
            if self.log[i].nr == n {
                c += 1;
            }
            i += 1;
        }
        c
    }
}

pub unsafe fn kernel(n: usize, a: [usize; 6], _nargs: usize) -> usize {
    let k = ks();
    let idx = k.calls;
    if k.retry_rule && idx >= 1 {
        let prev = k.log[idx - 1];
        assert!(
            n == nr::DUP3 && prev.nr == nr::DUP3 && prev.ret == err(16),
            "system call re-issued although the previous result was not dup3's -EBUSY"
        );
    }
    if k.max_calls != 0 && idx >= k.max_calls {
        kani::assume(false);
    }
    k.calls += 1;
    let mut failed = false;
    let r = if !k.model {
        let r: usize = kani::any();
        if k.raw_contract == 1 {
            kani::assume(is_err(r));
        } else if k.raw_contract == 2 {
            kani::assume(is_err(r) || r <= i32::MAX as usize);
        }
        r
    } else if idx < 32 && k.fail_mask & (1u32 << idx) != 0 && n != nr::EXIT && n != nr::EXIT_GROUP {
        failed = true;
        k.n_failed += 1;
        if n == nr::CLOSE {
            // Linux releases the descriptor even when close() reports an error (EINTR, EIO, ...)
            let _ = k.close_fd(a[0]);
        }
        let e: usize = if k.fail_errno != 0 {
            k.fail_errno
        } else {
            let e: usize = kani::any();
            kani::assume(e >= 1 && e <= 4095);
            e
        };
        k.last_errno = e;
        err(e)
    } else {
        let hooked = match k.hook {
            Some(h) => h(k, n, &a),
            None => None,
        };
        match hooked {
            Some(r) => r,
            None => model(k, n, &a),
        }
    };
    if idx < LOG {
        k.log[idx] = Call { nr: n, a, ret: r, failed };
    }
    r
}

unsafe fn model(k: &mut K, n: usize, a: &[usize; 6]) -> usize {
    match n {
        nr::OPENAT | nr::OPEN | nr::SOCKET | nr::EPOLL_CREATE1 | nr::IO_URING_SETUP | nr::DUP | nr::EPOLL_CREATE
        | nr::MEMFD_CREATE | nr::EVENTFD2 | nr::TIMERFD_CREATE | nr::SIGNALFD4 | nr::INOTIFY_INIT1 => k.alloc_fd(),
        nr::ACCEPT4 | nr::ACCEPT => {
            k.touch_fd(a[0]);
            k.alloc_fd()
        }
        nr::PIPE2 | nr::PIPE => {
            let p = a[0] as *mut i32;
            let r = k.alloc_fd();
            let w = k.alloc_fd();
            *p = r as i32;
            *p.add(1) = w as i32;
            0
        }
        nr::SOCKETPAIR => {
            let p = a[3] as *mut i32;
            let r = k.alloc_fd();
            let w = k.alloc_fd();
            *p = r as i32;
            *p.add(1) = w as i32;
            0
        }
        nr::DUP3 | nr::DUP2 => {
            k.touch_fd(a[0]);
            let newfd = a[1];
            if newfd < NFD {
                if k.fd_open & (1 << newfd) == 0 {
                    k.fd_born |= 1 << newfd;
                }
                k.fd_open |= 1 << newfd;
            }
            newfd
        }
        nr::CLOSE => k.close_fd(a[0]),
        nr::MMAP => k.mmap_alloc(a[1]),
        nr::MUNMAP => k.munmap(a[0], a[1]),
        nr::CLOCK_GETTIME => {
            // arbitrary non-decreasing instants
            let ds: i64 = kani::any();
            let ns: i64 = kani::any();
            kani::assume(ns >= 0 && ns < 1_000_000_000);
            kani::assume(ds >= 0 && ds <= i64::MAX - k.mono_s);
            let s = k.mono_s + ds;
            kani::assume(ds > 0 || ns >= k.mono_ns);
            k.mono_s = s;
            k.mono_ns = ns;
            k.clock_calls += 1;
            let p = a[1] as *mut i64;
            *p = s;
            *p.add(1) = ns;
            0
        }
        nr::NANOSLEEP => {
            let req = a[0] as *const i64;
            let (rs, rn) = (*req, *req.add(1));
            if k.sleep_calls == 0 {
                k.sleep_first_s = rs;
                k.sleep_first_ns = rn;
            } else if rs != k.sleep_rem_s || rn != k.sleep_rem_ns {
                // a retry must ask for exactly what was left
                k.sleep_bad_request = true;
            }
            if k.sleep_done {
                k.sleep_bad_request = true;
            }
            k.sleep_calls += 1;
            let interrupt: bool = kani::any();
            if interrupt && k.sleep_calls <= k.sleep_max_intr {
                // slept part of it: remainder is any normalised value <= request
                let ms: i64 = kani::any();
                let mn: i64 = kani::any();
                kani::assume(ms >= 0 && mn >= 0 && mn < 1_000_000_000);
                kani::assume(ms < rs || (ms == rs && mn <= rn));
                k.sleep_rem_s = ms;
                k.sleep_rem_ns = mn;
                let rem = a[1] as *mut i64;
                if !rem.is_null() {
                    *rem = ms;
                    *rem.add(1) = mn;
                }
                err(EINTR)
            } else {
                k.sleep_done = true;
                0
            }
        }
        nr::PPOLL | nr::POLL | nr::EPOLL_PWAIT | nr::EPOLL_WAIT => {
            // 0 = timed out, 1 = one descriptor ready
            k.touch_fd(if n == nr::PPOLL || n == nr::POLL { *(a[0] as *const i32) as usize } else { a[0] });
            let ready: bool = kani::any();
            ready as usize
        }
        nr::READ | nr::WRITE | nr::GETDENTS64 => {
            k.touch_fd(a[0]);
            // any count up to the buffer length (short transfers); content of the buffer is not modelled here
            let c: usize = kani::any();
            kani::assume(c <= a[2]);
            c
        }
        nr::COPY_FILE_RANGE => {
            k.touch_fd(a[0]);
            k.touch_fd(a[2]);
            let c: usize = kani::any();
            kani::assume(c <= a[4]);
            c
        }
        nr::CONNECT | nr::BIND | nr::LISTEN | nr::FCNTL | nr::IOCTL | nr::EPOLL_CTL | nr::NEWFSTATAT | nr::FSTAT
        | nr::LSEEK | nr::GETSOCKNAME | nr::SENDMSG | nr::RECVMSG => {
            k.touch_fd(a[0]);
            0
        }
        nr::WAIT4 => {
            k.waited += 1;
            // WNOHANG (bit 0): the child may still be running -> 0, status untouched
            if a[2] & 1 != 0 && k.reaped == 0 {
                let still_running: bool = kani::any();
                if still_running {
                    return 0;
                }
            }
            if k.reaped > 0 {
                return err(10); // ECHILD: already reaped
            }
            let status: i32 = kani::any();
            k.reaped += 1;
            k.reap_status = status;
            let st = a[1] as *mut i32;
            if !st.is_null() {
                *st = status;
            }
            if (a[0] as i32) > 0 { a[0] } else { 4242 }
        }
        nr::FORK | nr::VFORK => {
            // 0 = this path continues as the child, > 0 = the parent with the child's pid
            let child: bool = if k.fork_force == 0 { kani::any() } else { k.fork_force == 1 };
            k.forked = true;
            k.in_child = child;
            if child { 0 } else { 4242 }
        }
        nr::EXIT | nr::EXIT_GROUP => {
            k.exited = true;
            k.exit_code = a[0];
            // the path ends here: nothing after exit() executes
            kani::assume(false);
            0
        }
        _ => 0,
    }
}
