//! The symbolic kernel (first cut: call log + scripted return values).
pub const LOG: usize = 16;

pub struct K {
    pub calls: usize,
    pub nr: [usize; LOG],
    pub args: [[usize; 6]; LOG],
    pub ret: [usize; LOG],
}

pub static mut KS: K = K { calls: 0, nr: [0; LOG], args: [[0; 6]; LOG], ret: [0; LOG] };

pub unsafe fn kernel(nr: usize, a: [usize; 6], _n: usize) -> usize {
    let k = &mut *core::ptr::addr_of_mut!(KS);
    let r: usize = kani::any();
    if k.calls < LOG {
        k.nr[k.calls] = nr;
        k.args[k.calls] = a;
        k.ret[k.calls] = r;
    }
    k.calls += 1;
    r
}
