// Copyright 2014 The Rust Project Developers. See the COPYRIGHT
// file at the top-level directory of this distribution and at
// http://rust-lang.org/COPYRIGHT.
//
// Licensed under the Apache License, Version 2.0 <LICENSE-APACHE or
// http://www.apache.org/licenses/LICENSE-2.0> or the MIT license
// <LICENSE-MIT or http://opensource.org/licenses/MIT>, at your
// option. This file may not be copied, modified, or distributed
// except according to those terms.

#[macro_export]
macro_rules! syscall {
    ($nr:ident)
        => ( ::sc::syscall0(
                ::sc::nr::$nr) );

    ($nr:ident, $a1:expr)
        => ( ::sc::syscall1(
                ::sc::nr::$nr,
                $a1 as usize) );

    ($nr:ident, $a1:expr, $a2:expr)
        => ( ::sc::syscall2(
                ::sc::nr::$nr,
                $a1 as usize, $a2 as usize) );

    ($nr:ident, $a1:expr, $a2:expr, $a3:expr)
        => ( ::sc::syscall3(
                ::sc::nr::$nr,
                $a1 as usize, $a2 as usize, $a3 as usize) );

    ($nr:ident, $a1:expr, $a2:expr, $a3:expr, $a4:expr)
        => ( ::sc::syscall4(
                ::sc::nr::$nr,
                $a1 as usize, $a2 as usize, $a3 as usize,
                $a4 as usize) );

    ($nr:ident, $a1:expr, $a2:expr, $a3:expr, $a4:expr, $a5:expr)
        => ( ::sc::syscall5(
                ::sc::nr::$nr,
                $a1 as usize, $a2 as usize, $a3 as usize,
                $a4 as usize, $a5 as usize) );

    ($nr:ident, $a1:expr, $a2:expr, $a3:expr, $a4:expr, $a5:expr, $a6:expr)
        => ( ::sc::syscall6(
                ::sc::nr::$nr,
                $a1 as usize, $a2 as usize, $a3 as usize,
                $a4 as usize, $a5 as usize, $a6 as usize) );

    ($nr:ident, $a1:expr, $a2:expr, $a3:expr, $a4:expr, $a5:expr, $a6:expr, $a7:expr)
        => ( ::sc::syscall7(
                ::sc::nr::$nr,
                $a1 as usize, $a2 as usize, $a3 as usize,
                $a4 as usize, $a5 as usize, $a6 as usize,
                $a7 as usize) );
}
