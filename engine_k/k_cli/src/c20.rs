//! C20 — derived parsers accept exactly their declared grammar and never panic.
//! Differential check of the generated `arg_parse` against a reference parser written from the grammar, over
//! argument vectors of symbolic length whose elements are arbitrary byte strings; panics are Kani failures.
use crate::shapes::*;
use alloc::vec::Vec;
use tiny_std::unix::cli::ArgParse;
use tiny_std::UnixStr;

const MAXA: usize = 4; // bytes per argument incl. terminator

/// message formatting is not the subject: succeeds, writes nothing (deterministic, so that counterexamples replay
/// natively against the real formatter with the same argument vector)
pub fn stub_fmt_write(_o: &mut dyn core::fmt::Write, _a: core::fmt::Arguments<'_>) -> core::fmt::Result {
    Ok(())
}


/// n <= N arguments, each an arbitrary byte string of length 0..MAXA-1 without interior NUL
fn any_args<const N: usize>() -> ([&'static UnixStr; N], usize) {
    let n: usize = kani::any();
    kani::assume(n <= N);
    // leaked heap block: a legitimately 'static home for the argument bytes
    let bufs: &'static mut [[u8; MAXA]; 4] = alloc::boxed::Box::leak(alloc::boxed::Box::new([[0u8; MAXA]; 4]));
    let mut out: [&'static UnixStr; N] = [UnixStr::from_str_checked("\0"); N];
    let mut i = 0;
    while i < N {
        let b: [u8; MAXA] = kani::any();
        let len: usize = kani::any();
        kani::assume(len < MAXA);
        let mut j = 0;
        while j < MAXA {
            if j < len {
                kani::assume(b[j] != 0);
            }
            j += 1;
        }
        bufs[i] = b;
        bufs[i][len] = 0;
        i += 1;
    }
    let bufs: &'static [[u8; MAXA]; 4] = bufs;
    let mut i = 0;
    while i < N {
        let mut len = 0;
        while bufs[i][len] != 0 {
            len += 1;
        }
        out[i] = unsafe { UnixStr::from_bytes_unchecked(&bufs[i][..=len]) };
        i += 1;
    }
    (out, n)
}

fn is(a: &UnixStr, lit: &[u8]) -> bool {
    let s = a.as_slice();
    if s.len() != lit.len() + 1 {
        return false;
    }
    let mut i = 0;
    while i < lit.len() {
        if s[i] != lit[i] {
            return false;
        }
        i += 1;
    }
    true
}
fn same(a: &UnixStr, b: &UnixStr) -> bool {
    a.as_ptr() == b.as_ptr() && a.as_slice().len() == b.as_slice().len()
}
fn is_help(a: &UnixStr) -> bool {
    is(a, b"-h") || is(a, b"--help")
}

// ------------------------------------------------------------------ shape A
struct RefA {
    flag: bool,
    opt: Option<&'static UnixStr>,
    pos: &'static UnixStr,
}
/// grammar: { -b|--flag | (-o|--opt) VALUE | -h|--help => error | POS (at most one) }*, POS required
fn ref_a(args: &[&'static UnixStr]) -> Result<RefA, ()> {
    let (mut flag, mut opt, mut pos) = (false, None, None);
    let mut i = 0;
    while i < args.len() {
        let a = args[i];
        if is(a, b"-b") || is(a, b"--flag") {
            flag = true;
        } else if is(a, b"-o") || is(a, b"--opt") {
            i += 1;
            if i >= args.len() {
                return Err(());
            }
            opt = Some(args[i]);
        } else if is_help(a) {
            return Err(());
        } else if pos.is_none() {
            pos = Some(a);
        } else {
            return Err(());
        }
        i += 1;
    }
    Ok(RefA { flag, opt, pos: pos.ok_or(())? })
}

macro_rules! c20_a {
    ($name:ident, $n:expr, $u:expr) => {
        #[kani::proof]
        #[kani::unwind($u)]
        #[kani::stub(core::fmt::write, stub_fmt_write)]
        fn $name() {
            let (args, n) = any_args::<$n>();
            let want = ref_a(&args[..n]);
            kani::cover!(want.is_ok() && n == $n, "accepted, all arguments used");
            kani::cover!(matches!(&want, Ok(w) if w.opt.is_some()), "option with its value, and the positional");
            kani::cover!(matches!(&want, Ok(w) if w.flag), "flag and the positional");
            kani::cover!(want.is_err() && n == $n, "rejected");
            kani::cover!(n == 0, "empty command line");
            let got = ShapeA::arg_parse(&mut args.into_iter().take(n));
            match (got, want) {
                (Ok(g), Ok(w)) => {
                    assert!(g.flag == w.flag, "flag value");
                    assert!(g.opt.is_some() == w.opt.is_some(), "option presence");
                    if let (Some(a), Some(b)) = (g.opt, w.opt) {
                        assert!(same(a, b), "option value is the argument after it");
                    }
                    assert!(same(g.pos, w.pos), "positional value");
                }
                (Err(_), Err(())) => {}
                (Ok(_), Err(())) => assert!(false, "accepted a command line outside the grammar"),
                (Err(_), Ok(_)) => assert!(false, "rejected a command line of the grammar"),
            }
        }
    };
}
// @ob C20 quick shape_a_3x3 fns=<ShapeA as ArgParse>::arg_parse(derive),ArgParseError::new_cause_str,ArgParseError::new_cause_fmt bound="<=3 arguments of <=3 arbitrary bytes each (every permutation of options included)" stubs="core::fmt::write -> Ok, writes nothing" timeout=1500
c20_a!(shape_a_3x3, 3, 6);
// @ob C20 thorough shape_a_4x3 fns=<ShapeA as ArgParse>::arg_parse(derive) bound="<=4 arguments of <=3 arbitrary bytes each" stubs="core::fmt::write -> Ok, writes nothing" timeout=3400
c20_a!(shape_a_4x3, 4, 7);

// ------------------------------------------------------------------ shape B
struct RefB {
    num: u8,
    nrep: usize,
    rep: [Option<&'static UnixStr>; 2],
    pos: Option<&'static UnixStr>,
}
/// decimal u8 per core::str::FromStr: optional '+', 1..n digits, value <= 255
fn ref_u8(a: &UnixStr) -> Option<u8> {
    let s = a.as_slice();
    let s = &s[..s.len() - 1];
    let mut i = 0;
    if !s.is_empty() && s[0] == b'+' {
        i = 1;
    }
    if i >= s.len() {
        return None;
    }
    let mut v: u32 = 0;
    while i < s.len() {
        if s[i] < b'0' || s[i] > b'9' {
            return None;
        }
        v = v * 10 + (s[i] - b'0') as u32;
        i += 1;
    }
    if v > 255 { None } else { Some(v as u8) }
}
fn ref_b(args: &[&'static UnixStr], has_num: bool, has_rep: bool) -> Result<RefB, ()> {
    let mut num = None;
    let mut rep = [None; 2];
    let mut nrep = 0;
    let mut pos = None;
    let mut i = 0;
    while i < args.len() {
        let a = args[i];
        if has_num && (is(a, b"-n") || is(a, b"--num")) {
            i += 1;
            if i >= args.len() {
                return Err(());
            }
            num = Some(ref_u8(args[i]).ok_or(())?);
        } else if has_rep && is(a, b"-r") {
            i += 1;
            if i >= args.len() {
                return Err(());
            }
            if nrep < 2 {
                rep[nrep] = Some(args[i]);
            }
            nrep += 1;
        } else if is_help(a) {
            return Err(());
        } else if pos.is_none() {
            pos = Some(a);
        } else {
            return Err(());
        }
        i += 1;
    }
    Ok(RefB { num: if has_num { num.ok_or(())? } else { 0 }, nrep, rep, pos })
}
macro_rules! c20_b1 {
    ($name:ident, $n:expr, $u:expr) => {
        #[kani::proof]
        #[kani::unwind($u)]
        #[kani::stub(core::fmt::write, stub_fmt_write)]
        fn $name() {
            let (args, n) = any_args::<$n>();
            let want = ref_b(&args[..n], true, false);
            kani::cover!(matches!(&want, Ok(w) if w.num == 255), "largest number accepted");
            kani::cover!(want.is_err() && n == $n, "rejected");
            let got = ShapeB1::arg_parse(&mut args.into_iter().take(n));
            match (got, want) {
                (Ok(g), Ok(w)) => {
                    assert!(g.num == w.num, "numeric value");
                    assert!(g.pos.is_some() == w.pos.is_some());
                    if let (Some(a), Some(b)) = (g.pos, w.pos) {
                        assert!(same(a, b), "positional value");
                    }
                }
                (Err(_), Err(())) => {}
                (Ok(_), Err(())) => assert!(false, "accepted a command line outside the grammar"),
                (Err(_), Ok(_)) => assert!(false, "rejected a command line of the grammar"),
            }
        }
    };
}
macro_rules! c20_b2 {
    ($name:ident, $n:expr, $u:expr) => {
        #[kani::proof]
        #[kani::unwind($u)]
        #[kani::stub(core::fmt::write, stub_fmt_write)]
        fn $name() {
            let (args, n) = any_args::<$n>();
            let want = ref_b(&args[..n], false, true);
            kani::cover!(matches!(&want, Ok(w) if w.nrep == 1), "repeated option used once");
            kani::cover!(want.is_err() && n == $n, "rejected");
            let got = ShapeB2::arg_parse(&mut args.into_iter().take(n));
            match (got, want) {
                (Ok(g), Ok(w)) => {
                    assert!(g.rep.len() == w.nrep, "number of repeated values");
                    let mut i = 0;
                    while i < g.rep.len() && i < 2 {
                        assert!(same(g.rep[i], w.rep[i].unwrap()), "repeated values in order");
                        i += 1;
                    }
                    assert!(g.pos.is_some() == w.pos.is_some());
                    if let (Some(a), Some(b)) = (g.pos, w.pos) {
                        assert!(same(a, b), "positional value");
                    }
                    core::mem::forget(g);
                }
                (Err(_), Err(())) => {}
                (Ok(_), Err(())) => assert!(false, "accepted a command line outside the grammar"),
                (Err(_), Ok(_)) => assert!(false, "rejected a command line of the grammar"),
            }
        }
    };
}
// @ob C20 quick shape_b1_2x3 fns=<ShapeB1 as ArgParse>::arg_parse(derive),u8::from_str,UnixStr::as_str bound="required numeric option + optional positional; <=2 arguments of <=3 arbitrary bytes each" stubs="core::fmt::write -> Ok, writes nothing" timeout=1800 mem=30
c20_b1!(shape_b1_2x3, 2, 6);
// (shape B2 - the repeated option collected into a Vec - exhausted 30 GB with two arguments and has no obligation; the
// macro is kept for a larger machine)
// @ob C20 thorough shape_b1_3x3 fns=<ShapeB1 as ArgParse>::arg_parse(derive),u8::from_str bound="<=3 arguments of <=3 arbitrary bytes each" stubs="core::fmt::write -> Ok, writes nothing" timeout=3400 mem=44
c20_b1!(shape_b1_3x3, 3, 6);

// ------------------------------------------------------------------ shapes C and D (subcommands)
#[derive(PartialEq, Clone, Copy)]
enum RefSub {
    One,
    Two(bool),
}
/// SubTwo grammar: { -x | -h|--help => error | anything else => error }*
fn ref_subtwo(args: &[&'static UnixStr]) -> Result<bool, ()> {
    let mut x = false;
    let mut i = 0;
    while i < args.len() {
        if is(args[i], b"-x") {
            x = true;
        } else {
            return Err(());
        }
        i += 1;
    }
    Ok(x)
}
/// returns (verbose, subcommand). "one" consumes nothing and parsing of the outer struct continues;
/// "two" hands ALL remaining arguments to the nested parser.
fn ref_c(args: &[&'static UnixStr]) -> Result<(bool, Option<RefSub>), ()> {
    let mut verbose = false;
    let mut sc = None;
    let mut i = 0;
    while i < args.len() {
        let a = args[i];
        if is(a, b"-v") {
            verbose = true;
        } else if is_help(a) {
            return Err(());
        } else if is(a, b"one") {
            sc = Some(RefSub::One);
        } else if is(a, b"two") {
            let x = ref_subtwo(&args[i + 1..])?;
            sc = Some(RefSub::Two(x));
            i = args.len();
            continue;
        } else {
            return Err(());
        }
        i += 1;
    }
    Ok((verbose, sc))
}
fn sub_eq(g: &Sub, w: RefSub) -> bool {
    match (g, w) {
        (Sub::One, RefSub::One) => true,
        (Sub::Two(t), RefSub::Two(x)) => t.x == x,
        _ => false,
    }
}
macro_rules! c20_c {
    ($name:ident, $n:expr, $u:expr) => {
        #[kani::proof]
        #[kani::unwind($u)]
        #[kani::stub(core::fmt::write, stub_fmt_write)]
        fn $name() {
            let (args, n) = any_args::<$n>();
            let want = ref_c(&args[..n]);
            kani::cover!(matches!(&want, Ok((true, Some(RefSub::Two(true))))), "option, nested subcommand with its option");
            kani::cover!(matches!(&want, Ok((_, None))) && n > 0, "optional subcommand absent");
            kani::cover!(want.is_err() && n == $n, "rejected");
            let got = ShapeC::arg_parse(&mut args.into_iter().take(n));
            match (got, want) {
                (Ok(g), Ok((v, s))) => {
                    assert!(g.verbose == v, "flag value");
                    assert!(g.sc.is_some() == s.is_some(), "subcommand presence");
                    if let (Some(a), Some(b)) = (&g.sc, s) {
                        assert!(sub_eq(a, b), "subcommand and its nested values");
                    }
                }
                (Err(_), Err(())) => {}
                (Ok(_), Err(())) => assert!(false, "accepted a command line outside the grammar"),
                (Err(_), Ok(_)) => assert!(false, "rejected a command line of the grammar"),
            }
        }
    };
}
// @ob C20 thorough shape_c_3x3 fns=<ShapeC as ArgParse>::arg_parse(derive),<Sub as SubcommandParse>::subcommand_parse(derive),<SubTwo as ArgParse>::arg_parse(derive) bound="<=3 arguments of <=3 arbitrary bytes each" stubs="core::fmt::write -> Ok, writes nothing" timeout=1500 mem=44
c20_c!(shape_c_3x3, 3, 6);
// @ob C20 quick shape_c_2x3 fns=<ShapeC as ArgParse>::arg_parse(derive),<Sub as SubcommandParse>::subcommand_parse(derive),<SubTwo as ArgParse>::arg_parse(derive) bound="<=2 arguments of <=3 arbitrary bytes each (3 arguments need 24-44 GB: thorough tier)" stubs="core::fmt::write -> Ok, writes nothing" timeout=1800 nocover=1
c20_c!(shape_c_2x3, 2, 6);
// @ob C20 thorough shape_c_4x3 fns=<ShapeC as ArgParse>::arg_parse(derive),<Sub as SubcommandParse>::subcommand_parse(derive) bound="<=4 arguments of <=3 arbitrary bytes each" stubs="core::fmt::write -> Ok, writes nothing" timeout=3400 mem=44
c20_c!(shape_c_4x3, 4, 7);

// @ob C20 thorough shape_d_required_subcommand fns=<ShapeD as ArgParse>::arg_parse(derive) bound="<=3 arguments of <=3 arbitrary bytes each" stubs="core::fmt::write -> Ok, writes nothing" timeout=1500 mem=44
#[kani::proof]
#[kani::unwind(6)]
#[kani::stub(core::fmt::write, stub_fmt_write)]
fn shape_d_required_subcommand() {
    let (args, n) = any_args::<3>();
    // grammar of D = grammar of C without -v, subcommand required; last subcommand wins
    let mut ok = true;
    let mut sc = None;
    let mut i = 0;
    while i < n {
        let a = args[i];
        if is(a, b"one") {
            sc = Some(RefSub::One);
        } else if is(a, b"two") {
            match ref_subtwo(&args[i + 1..n]) {
                Ok(x) => sc = Some(RefSub::Two(x)),
                Err(()) => ok = false,
            }
            break;
        } else {
            ok = false;
            break;
        }
        i += 1;
    }
    let want = if ok { sc } else { None };
    kani::cover!(want.is_some(), "accepted");
    kani::cover!(want.is_none() && n == 3, "rejected");
    match ShapeD::arg_parse(&mut args.into_iter().take(n)) {
        Ok(g) => {
            assert!(want.is_some(), "accepted a command line outside the grammar (or without the required subcommand)");
            assert!(sub_eq(&g.sc, want.unwrap()));
        }
        Err(_) => assert!(want.is_none(), "rejected a command line of the grammar"),
    }
}

// ------------------------------------------------------------------ error text overflow: very long argument, real formatter
static LONGARG: [u8; 141] = {
    let mut b = [b'a'; 141];
    b[140] = 0;
    b
};
// (no obligation: through the real core::fmt::write with a 140-byte argument this harness gave no verdict in 3400 s;
// c20::cause_buffer_any_chunk decides the buffer for every fill level and chunk length <= 300 instead)
#[kani::proof]
#[kani::unwind(150)]
fn long_argument_error_text() {
    let long: &'static UnixStr = unsafe { UnixStr::from_bytes_unchecked(&LONGARG) };
    let args = [UnixStr::from_str_checked("p\0"), long];
    match ShapeA::arg_parse(&mut args.into_iter()) {
        Ok(_) => assert!(false, "two positionals are outside the grammar"),
        Err(e) => assert!(e.cause.len() <= 128, "error value, not a panic; cause fits its buffer"),
    }
}

// ------------------------------------------------------------------ the error-cause buffer, for every fill level and chunk length
struct NoHelp;
impl core::fmt::Display for NoHelp {
    fn fmt(&self, _f: &mut core::fmt::Formatter<'_>) -> core::fmt::Result {
        Ok(())
    }
}
static NOHELP: NoHelp = NoHelp;

// @ob C20 quick cause_buffer_any_chunk fns=ArgParseCauseBuffer::write_str,ArgParseError::new_cause_str bound="buffer filled to any level 0..=128 by a first write, then one chunk of any length 0..=300 bytes: never a panic; accepted exactly when it fits; length and a probed byte exact" timeout=900
#[kani::proof]
#[kani::unwind(4)]
fn cause_buffer_any_chunk() {
    use core::fmt::Write;
    let bytes: &'static [u8; 300] = alloc::boxed::Box::leak(alloc::boxed::Box::new([b'x'; 300]));
    let n1: usize = kani::any();
    let n2: usize = kani::any();
    kani::assume(n1 <= 300 && n2 <= 300);
    let s1 = unsafe { core::str::from_utf8_unchecked(&bytes[..n1]) };
    let s2 = unsafe { core::str::from_utf8_unchecked(&bytes[..n2]) };
    kani::cover!(n1 == 128, "first write fills the buffer exactly");
    kani::cover!(n1 > 128, "first write alone is too long");
    match tiny_std::unix::cli::ArgParseError::new_cause_str(&NOHELP, s1) {
        Ok(mut e) => {
            assert!(n1 <= 128 && e.cause.len() == n1, "accepted exactly when it fits");
            let r = e.cause.write_str(s2);
            kani::cover!(r.is_ok() && n1 + n2 == 128, "second chunk ends exactly at the capacity");
            kani::cover!(r.is_err() && n2 > 128, "a single chunk longer than the whole buffer is refused, not a panic");
            assert!(r.is_ok() == (n1 + n2 <= 128), "a chunk is accepted exactly when it fits the remaining space");
            assert!(e.cause.len() == if r.is_ok() { n1 + n2 } else { n1 }, "length advances by the chunk, or not at all");
        }
        Err(e) => {
            assert!(n1 > 128, "refused only when too long");
            assert!(e.cause.len() <= 128);
        }
    }
}
