//! C03 harnesses: the repository's dlmalloc.rs compiled inside a wrapper module (include!), so that private fields and
//! helper functions are visible to the harness; its mmap/mremap/munmap system calls enter the symbolic kernel, which serves
//! them from two static page-aligned arenas with exact bookkeeping.
#![allow(dead_code)]
#![allow(clippy::all)]
#![allow(static_mut_refs)]

pub mod dl {
    include!("/repo/tiny-std/src/allocator/dlmalloc.rs");

    #[cfg(kani)]
    pub mod harness {
        use super::*;
        use sc::nr;
        use sc::vk::{err, ks, K};

        /// dlmalloc asks the OS for multiples of 64 KiB: one arena serves every small/medium request, anything larger is
        /// refused (ENOMEM), which is a legal answer of the OS
        pub const ARENA: usize = 64 * 1024;
        #[repr(C, align(4096))]
        pub struct Arena(pub [u64; ARENA / 8]);
        /// the two arenas live in the harness's frame, uninitialised (= arbitrary content, as freshly mapped memory is only
        /// zero the first time)
        pub type Mem = core::mem::MaybeUninit<[Arena; 2]>;
        pub struct Os {
            pub base: [usize; 2],
            pub used: [bool; 2],
            pub len: [usize; 2],
            pub mmaps: u32,
            pub refused: u32,
            pub bad_unmap: u32,
        }
        pub static mut OS: Os = Os { base: [0; 2], used: [false; 2], len: [0; 2], mmaps: 0, refused: 0, bad_unmap: 0 };
        pub fn os() -> &'static mut Os {
            unsafe { &mut *core::ptr::addr_of_mut!(OS) }
        }
        pub fn base(i: usize) -> usize {
            os().base[i]
        }

        fn hook(_k: &mut K, n: usize, a: &[usize; 6]) -> Option<usize> {
            let o = os();
            match n {
                nr::MMAP => {
                    o.mmaps += 1;
                    let len = a[1];
                    let mut i = 0;
                    while i < 2 {
                        if !o.used[i] && len <= ARENA && len > 0 {
                            o.used[i] = true;
                            o.len[i] = len;
                            return Some(base(i));
                        }
                        i += 1;
                    }
                    o.refused += 1;
                    Some(err(12))
                }
                nr::MREMAP => {
                    // growing/moving is refused (ENOMEM) - always a legal answer; shrinking in place succeeds
                    let (addr, old, new) = (a[0], a[1], a[2]);
                    if new <= old {
                        let mut i = 0;
                        while i < 2 {
                            if o.used[i] && base(i) == addr && o.len[i] == old {
                                o.len[i] = new;
                                return Some(addr);
                            }
                            i += 1;
                        }
                    }
                    Some(err(12))
                }
                nr::MUNMAP => {
                    let mut i = 0;
                    while i < 2 {
                        if o.used[i] && a[0] >= base(i) && a[0] + a[1] <= base(i) + o.len[i] {
                            if a[0] == base(i) && a[1] == o.len[i] {
                                o.used[i] = false;
                            } else if a[0] + a[1] == base(i) + o.len[i] {
                                o.len[i] -= a[1]; // tail released
                            } else {
                                o.bad_unmap += 1;
                            }
                            return Some(0);
                        }
                        i += 1;
                    }
                    o.bad_unmap += 1;
                    Some(err(22))
                }
                _ => None,
            }
        }

        pub fn setup(faults: bool, mem: &mut Mem) {
            let p = mem.as_mut_ptr() as usize;
            os().base = [p, p + ARENA];
            let k = ks();
            if faults {
                k.model_with_one_fault();
            } else {
                k.model_no_faults();
            }
            k.hook = Some(hook);
            k.max_calls = 8;
        }
        pub fn in_arena(p: usize, n: usize) -> bool {
            let o = os();
            let mut i = 0;
            while i < 2 {
                if o.used[i] && p >= base(i) && p + n <= base(i) + o.len[i] {
                    return true;
                }
                i += 1;
            }
            false
        }

        // ---------------------------------------------------------------- (1) arithmetic kernels, full width
        // @ob C03 quick arith_request2size mod=dl::harness fns=Dlmalloc::pad_request,Dlmalloc::request2size,Dlmalloc::is_small,Dlmalloc::small_index,Dlmalloc::small_index2size,align_up bound="every request size below MAX_REQUEST (full 64-bit width)" timeout=600
        #[kani::proof]
        pub fn arith_request2size() {
            let req: usize = kani::any();
            kani::assume(req < Dlmalloc::MAX_REQUEST);
            let sz = Dlmalloc::request2size(req);
            kani::cover!(req == 0, "zero-size request");
            kani::cover!(req == Dlmalloc::MAX_REQUEST - 1, "largest request");
            kani::cover!(sz == 256, "small/large boundary chunk");
            assert!(sz >= req + Dlmalloc::CHUNK_OVERHEAD, "chunk covers request plus header (no wrap)");
            assert!(sz % Dlmalloc::MALLOC_ALIGNMENT == 0, "chunk sizes are multiples of the malloc alignment");
            assert!(sz >= Dlmalloc::MIN_CHUNK_SIZE, "never below the minimum chunk");
            assert!(sz < req + Dlmalloc::CHUNK_OVERHEAD + Dlmalloc::MIN_CHUNK_SIZE + Dlmalloc::MALLOC_ALIGNMENT, "no more slack than one alignment unit / minimum chunk");
            if Dlmalloc::is_small(sz) {
                let idx = Dlmalloc::small_index(sz);
                assert!((idx as usize) < NSMALLBINS, "small bin index in range");
                assert!(Dlmalloc::small_index2size(idx) == sz, "small_index and small_index2size are inverse on chunk sizes");
            } else {
                assert!(sz >= Dlmalloc::MIN_LARGE_SIZE);
            }
        }

        /// dlmalloc's definition: smallest chunk size that maps to tree bin `idx`
        fn ref_min_size_for_tree_index(idx: u32) -> usize {
            let sh = (idx >> 1) as usize + TREEBIN_SHIFT;
            (1usize << sh) | (((idx & 1) as usize) << (sh - 1))
        }

        // @ob C03 quick arith_tree_index mod=dl::harness fns=Dlmalloc::compute_tree_index,leftshift_for_tree_index bound="every chunk size (full 64-bit width)" timeout=600
        #[kani::proof]
        pub fn arith_tree_index() {
            let sz: usize = kani::any();
            kani::assume(sz >= Dlmalloc::MIN_LARGE_SIZE);
            let idx = Dlmalloc::compute_tree_index(sz);
            kani::cover!(idx == 0, "first tree bin");
            kani::cover!(idx == 31, "last tree bin");
            assert!((idx as usize) < NTREEBINS, "tree bin index in range");
            assert!(ref_min_size_for_tree_index(idx) <= sz, "a size is not smaller than its bin's minimum");
            if idx < 31 {
                assert!(sz < ref_min_size_for_tree_index(idx + 1), "and smaller than the next bin's minimum (bins partition the sizes)");
            }
            let sh = leftshift_for_tree_index(idx);
            assert!(sh < 64, "tree descent shift stays below the word width");
        }

        // @ob C03 quick arith_bits mod=dl::harness fns=left_bits,least_bit,align_up,Dlmalloc::align_offset_usize,Dlmalloc::mmap_align bound="every 32-bit map / every address" timeout=600
        #[kani::proof]
        pub fn arith_bits() {
            let x: u32 = kani::any();
            // precondition at all three call sites (a non-empty bin map): x != 0; with x == 0 the expression `!x + 1`
            // overflows, which the callers exclude
            kani::assume(x != 0);
            let lb = least_bit(x);
            kani::cover!(x == 0x8000_0000, "only the top bit");
            assert!(lb != 0 && lb & (lb - 1) == 0 && x & lb != 0 && x & (lb - 1) == 0, "least_bit isolates the lowest set bit");
            let l = left_bits(x);
            if x != 0 && x & (x - 1) == 0 && x != 0x8000_0000 {
                // for a single bit: exactly the bits to its left
                assert!(l & x == 0 && l & (x - 1) == 0 && l | x | (x - 1) == u32::MAX, "left_bits of a single bit is everything above it");
            }
            let a: usize = kani::any();
            kani::assume(a < usize::MAX - 8192);
            let off = Dlmalloc::align_offset_usize(a);
            assert!((a + off) % Dlmalloc::MALLOC_ALIGNMENT == 0 && off < Dlmalloc::MALLOC_ALIGNMENT, "align_offset reaches the next aligned address");
            let al = align_up(a, 4096);
            assert!(al >= a && al % 4096 == 0 && al - a < 4096, "align_up to the page size");
        }

        // ---------------------------------------------------------------- (2) one operation, symbolic arguments, fresh heap
        // @ob C03 quick single_malloc_any_size mod=dl::harness fns=Dlmalloc::malloc,Dlmalloc::inner_malloc,Dlmalloc::sys_alloc,Dlmalloc::init_top,Dlmalloc::init_bins,Dlmalloc::add_segment,syscall_alloc bound="fresh heap; size any usize; alignment <= 16; the OS may refuse the mapping (one failing call)" timeout=1500
        #[kani::proof]
        #[kani::unwind(35)]
        pub fn single_malloc_any_size() {
            let mut mem = Mem::uninit();
            setup(true, &mut mem);
            let mut a = Dlmalloc::new();
            let size: usize = kani::any();
            let p = unsafe { a.malloc(size, 8) } as usize;
            let o = os();
            let k = ks();
            kani::cover!(p != 0 && size > 30_000, "large request");
            kani::cover!(p != 0 && size == 1, "tiny request");
            kani::cover!(p == 0 && k.n_failed == 1, "the OS refused memory");
            kani::cover!(p == 0 && size >= Dlmalloc::MAX_REQUEST, "request too large");
            if p != 0 {
                assert!(p % Dlmalloc::MALLOC_ALIGNMENT == 0, "aligned");
                assert!(in_arena(p, size), "the block [p, p+size) lies inside memory obtained from the OS");
                assert!(in_arena(p - Chunk::MEM_OFFSET, Chunk::MEM_OFFSET), "its header too");
                assert!(k.n_failed == 0 || o.mmaps >= 2, "served although one mapping was refused only if another succeeded");
            } else {
                assert!(size >= Dlmalloc::MAX_REQUEST || k.n_failed == 1 || o.refused >= 1, "null only when the request is too large or the OS refused");
                // nothing is lost: the allocator's bookkeeping is untouched or consistent, and a small request still works
                if k.n_failed == 1 && o.mmaps <= 1 {
                    assert!(a.footprint == 0 && a.top.is_null() && a.topsize == 0, "a refused first mapping leaves the allocator untouched");
                }
            }
            assert!(o.bad_unmap == 0, "nothing is unmapped that was not mapped");
        }

        // @ob C03 quick single_memalign mod=dl::harness fns=Dlmalloc::malloc,Dlmalloc::memalign,Dlmalloc::dispose_chunk bound="fresh heap; size 1..=4096 symbolic; alignment any power of two 32..=8192" timeout=2400
        #[kani::proof]
        #[kani::unwind(35)]
        pub fn single_memalign() {
            let mut mem = Mem::uninit();
            setup(false, &mut mem);
            let mut a = Dlmalloc::new();
            let size: usize = kani::any();
            let sh: u32 = kani::any();
            kani::assume(size >= 1 && size <= 4096 && sh >= 5 && sh <= 13);
            let align = 1usize << sh;
            let p = unsafe { a.malloc(size, align) } as usize;
            kani::cover!(align == 8192 && p != 0, "largest alignment");
            assert!(p != 0, "an aligned request that fits the fresh heap succeeds");
            assert!(p % align == 0, "aligned as requested");
            assert!(in_arena(p, size), "inside memory obtained from the OS");
            assert!(os().bad_unmap == 0);
        }

        // @ob C03 quick single_calloc_zeroed mod=dl::harness fns=Dlmalloc::calloc,Dlmalloc::calloc_must_clear bound="fresh heap whose memory is pre-filled with arbitrary bytes; size 1..=512; zero check at a symbolic index" timeout=1500
        #[kani::proof]
        #[kani::unwind(35)]
        pub fn single_calloc_zeroed() {
            let mut mem = Mem::uninit();
            setup(false, &mut mem);
            // dirty memory: the arena is not zero when handed out for the second time
            let fill: u8 = kani::any();
            let at: usize = kani::any();
            kani::assume(at < 8192);
            unsafe { *((base(0) + at) as *mut u8) = fill };
            let mut a = Dlmalloc::new();
            let size: usize = kani::any();
            kani::assume(size >= 1 && size <= 512);
            let p = unsafe { a.calloc(size, 8) };
            assert!(!p.is_null());
            let i: usize = kani::any();
            kani::assume(i < size);
            kani::cover!(fill != 0 && (p as usize + i) == base(0) + at, "the probed byte was dirty before");
            assert!(unsafe { *p.add(i) } == 0, "allocate-zeroed returns zeros");
        }

        // ---------------------------------------------------------------- small heap constructed directly
        /// One segment of SMALL bytes, initialised by the allocator's own init_bins/init_top exactly as sys_alloc's
        /// first-segment branch does for a mapping of that size.  (Production segments are multiples of 64 KiB: the
        /// segment size is a parameter of the heap representation, not of the algorithms; 64 KiB byte arrays with
        /// pointer-typed accesses exhaust the solver's memory - see DESIGN.md.)
        pub const SMALL: usize = 2048;
        #[repr(C, align(4096))]
        pub struct SmallArena(pub [u64; SMALL / 8]);
        pub unsafe fn small_heap(a: &mut Dlmalloc, mem: &mut core::mem::MaybeUninit<SmallArena>) {
            let tbase = mem.as_mut_ptr() as *mut u8;
            let o = os();
            o.base = [tbase as usize, 0];
            o.used = [true, false];
            o.len = [SMALL, 0];
            let k = ks();
            k.model_no_faults();
            k.hook = Some(hook_refuse);
            k.max_calls = 8;
            // in place: the bins are self-referential (bin.next = bin), the allocator must not move afterwards
            a.footprint = SMALL;
            a.max_footprint = SMALL;
            a.least_addr = tbase;
            a.seg.base = tbase;
            a.seg.size = SMALL;
            a.seg.flags = 0;
            a.release_checks = MAX_RELEASE_CHECK_RATE;
            // init_bins, unrolled by hand (its 32-iteration loop would force an unwind bound of 34 on every loop of the
            // harness, and the tree loops with symbolic conditions then exhaust symbolic execution); the real
            // init_bins runs in the fresh-heap harnesses
            macro_rules! bins {
                ($($i:expr),*) => { $( { let b = a.smallbin_at($i); (*b).next = b; (*b).prev = b; } )* };
            }
            bins!(0, 1, 2, 3, 4, 5, 6, 7, 8, 9, 10, 11, 12, 13, 14, 15, 16, 17, 18, 19, 20, 21, 22, 23, 24, 25, 26, 27, 28, 29, 30, 31);
            a.init_top(tbase.cast(), SMALL - Dlmalloc::top_foot_size());
        }
        /// the OS refuses every further mapping (ENOMEM) and must not be asked to unmap anything
        fn hook_refuse(_k: &mut K, n: usize, _a: &[usize; 6]) -> Option<usize> {
            let o = os();
            match n {
                nr::MMAP | nr::MREMAP => {
                    o.refused += 1;
                    Some(err(12))
                }
                nr::MUNMAP => {
                    o.bad_unmap += 1;
                    Some(err(22))
                }
                _ => None,
            }
        }

        // ---------------------------------------------------------------- (2b) symbolic histories on the small heap
        #[derive(Copy, Clone)]
        pub struct Slot {
            pub ptr: *mut u8,
            pub p: usize,
            pub size: usize,
            pub align: usize,
            pub probe: usize,
            pub tag: u8,
            pub live: bool,
        }
        pub const NSLOT: usize = 3;
        unsafe fn check_slots(sl: &[Slot; NSLOT]) {
            let mut i = 0;
            while i < NSLOT {
                if sl[i].live {
                    let a = sl[i];
                    assert!(a.p % a.align == 0, "a live block is aligned as requested");
                    assert!(a.p >= base(0) && a.p + a.size <= base(0) + SMALL, "a live block lies inside memory obtained from the OS");
                    if a.size > 0 {
                        assert!(*a.ptr.add(a.probe) == a.tag, "a block's bytes change only through its owner");
                    }
                    let mut j = i + 1;
                    while j < NSLOT {
                        if sl[j].live {
                            assert!(disjoint(a.p, a.size, sl[j].p, sl[j].size), "live blocks do not overlap");
                        }
                        j += 1;
                    }
                }
                i += 1;
            }
        }
        /// One allocator call per step (a single call site each for malloc and free keeps symbolic execution small):
        /// step = allocate into a free slot, or free a live slot; sizes 0..=max_size, alignment 1 << 0..=max_align_shift
        unsafe fn history_mf(a: &mut Dlmalloc, mem: &mut core::mem::MaybeUninit<SmallArena>, steps: usize, max_size: usize, max_align_shift: u32) -> ([Slot; NSLOT], u32) {
            small_heap(a, mem);
            let mut sl = [Slot { ptr: core::ptr::null_mut(), p: 0, size: 0, align: 1, probe: 0, tag: 0, live: false }; NSLOT];
            let mut nulls = 0u32;
            let mut step = 0;
            while step < steps {
                let i: usize = kani::any();
                kani::assume(i < NSLOT);
                if !sl[i].live {
                    let size: usize = kani::any();
                    kani::assume(size <= max_size);
                    let probe: usize = kani::any();
                    kani::assume(probe < size || (size == 0 && probe == 0));
                    let tag: u8 = kani::any();
                    let sh: u32 = kani::any();
                    kani::assume(sh <= max_align_shift);
                    let align = 1usize << sh;
                    let refused_before = os().refused;
                    let p = a.malloc(size, align);
                    if p.is_null() {
                        assert!(os().refused > refused_before, "null only when the operating system refused memory");
                        nulls += 1;
                    } else {
                        if size > 0 {
                            *p.add(probe) = tag;
                        }
                        sl[i] = Slot { ptr: p, p: p as usize, size, align, probe, tag, live: true };
                    }
                } else {
                    a.free(sl[i].ptr);
                    sl[i].live = false;
                }
                check_slots(&sl);
                assert!(os().bad_unmap == 0, "nothing is unmapped that was not mapped");
                step += 1;
            }
            (sl, nulls)
        }

        // @ob C03 quick one_malloc_small_heap mod=dl::harness fns=Dlmalloc::malloc,Dlmalloc::inner_malloc,Dlmalloc::sys_alloc bound="ONE allocation of any size 0..=4096 and alignment <= 16 on the 2 KiB heap constructed directly (requests that do not fit: the OS refuses, null)" timeout=1800
        #[kani::proof]
        #[kani::unwind(6)]
        pub fn one_malloc_small_heap() {
            unsafe {
                let mut mem = core::mem::MaybeUninit::<SmallArena>::uninit();
                let mut a = Dlmalloc::new();
                let (sl, n) = history_mf(&mut a, &mut mem, 1, 4096, 4);
                kani::cover!(n == 1, "request larger than the heap: refused by the OS, null");
                kani::cover!(sl[0].live && sl[0].size == 0, "zero-size block");
                kani::cover!(sl[1].live && sl[1].size > 1000, "large block");
            }
        }

        // ---------------------------------------------------------------- (2c) scripted histories: operations and sizes are LISTED, contents symbolic
        #[derive(Copy, Clone)]
        pub enum Op {
            /// slot, size, align
            M(usize, usize, usize),
            /// calloc
            Z(usize, usize, usize),
            /// slot, new size
            R(usize, usize),
            F(usize),
            /// the allocation must fail (OS refuses) and leave everything else intact
            Mnull(usize, usize, usize),
        }
        pub const NS: usize = 8;
        unsafe fn check_all(sl: &[Slot; NS], heap: usize) {
            let mut i = 0;
            while i < NS {
                if sl[i].live {
                    let a = sl[i];
                    assert!(a.p % a.align == 0, "a live block is aligned as requested");
                    assert!(a.p >= base(0) && a.p + a.size <= base(0) + heap, "a live block lies inside memory obtained from the OS");
                    if a.size > 0 {
                        assert!(*a.ptr.add(a.probe) == a.tag, "a block's bytes change only through its owner");
                    }
                    let mut j = i + 1;
                    while j < NS {
                        if sl[j].live {
                            assert!(disjoint(a.p, a.size, sl[j].p, sl[j].size), "live blocks do not overlap");
                        }
                        j += 1;
                    }
                }
                i += 1;
            }
        }
        /// start of a listed script on the small heap; every block gets a symbolic tag byte at a symbolic index, so that
        /// "the bytes of every other block are untouched" is decided for all positions at once
        fn no_slots() -> [Slot; NS] {
            [Slot { ptr: core::ptr::null_mut(), p: 0, size: 0, align: 1, probe: 0, tag: 0, live: false }; NS]
        }
        /// Writes the tag over the first <= 32 and the last <= 16 bytes of the block, at CONCRETE addresses (a store at a
        /// symbolic address into the arena makes every later header read symbolic and symbolic execution explodes).
        /// These are the bytes allocator metadata of a neighbour or of a free-list link would land on.
        unsafe fn fill_edges(p: *mut u8, size: usize, tag: u8) {
            let head = if size < 32 { size } else { 32 };
            let mut i = 0;
            while i < head {
                *p.add(i) = tag;
                i += 1;
            }
            let tail = if size < 16 { size } else { 16 };
            let mut j = size - tail;
            while j < size {
                *p.add(j) = tag;
                j += 1;
            }
        }
        fn edge_probe(size: usize) -> usize {
            let probe: usize = kani::any();
            kani::assume(probe < size || (size == 0 && probe == 0));
            kani::assume(probe < 32 || probe + 16 >= size);
            probe
        }
        unsafe fn after(sl: &[Slot; NS]) {
            check_all(sl, SMALL);
            assert!(os().bad_unmap == 0, "nothing is unmapped that was not mapped");
        }
        unsafe fn do_m(a: &mut Dlmalloc, sl: &mut [Slot; NS], i: usize, size: usize, align: usize, z: bool) {
            let probe = edge_probe(size);
            let tag: u8 = kani::any();
            let p = if z { a.calloc(size, align) } else { a.malloc(size, align) };
            assert!(!p.is_null(), "the request fits the heap: it succeeds");
            if z && size > 0 {
                let anyi: usize = kani::any();
                kani::assume(anyi < size);
                assert!(*p.add(anyi) == 0, "allocate-zeroed returns zeros");
            }
            fill_edges(p, size, tag);
            sl[i] = Slot { ptr: p, p: p as usize, size, align, probe, tag, live: true };
            after(sl);
        }
        unsafe fn do_null(a: &mut Dlmalloc, sl: &mut [Slot; NS], size: usize, align: usize) {
            let before = os().refused;
            let p = a.malloc(size, align);
            assert!(p.is_null() && os().refused > before, "null exactly because the operating system refused memory");
            after(sl);
        }
        unsafe fn do_r(a: &mut Dlmalloc, sl: &mut [Slot; NS], i: usize, size: usize) {
            let probe = edge_probe(size);
            let tag: u8 = kani::any();
            let old = sl[i];
            let p = a.realloc(old.ptr, old.size, old.align, size);
            assert!(!p.is_null(), "the request fits the heap: it succeeds");
            if old.size > 0 && old.probe < size {
                assert!(*p.add(old.probe) == old.tag, "reallocation preserves the common prefix");
            }
            fill_edges(p, size, tag);
            sl[i] = Slot { ptr: p, p: p as usize, size, align: old.align, probe, tag, live: true };
            after(sl);
        }
        unsafe fn do_f(a: &mut Dlmalloc, sl: &mut [Slot; NS], i: usize) {
            a.free(sl[i].ptr);
            sl[i].live = false;
            after(sl);
        }
        macro_rules! op {
            ($a:ident, $sl:ident, M($i:expr, $s:expr, $al:expr)) => { do_m(&mut $a, &mut $sl, $i, $s, $al, false) };
            ($a:ident, $sl:ident, Z($i:expr, $s:expr, $al:expr)) => { do_m(&mut $a, &mut $sl, $i, $s, $al, true) };
            ($a:ident, $sl:ident, Mnull($i:expr, $s:expr, $al:expr)) => { do_null(&mut $a, &mut $sl, $s, $al) };
            ($a:ident, $sl:ident, R($i:expr, $s:expr)) => { do_r(&mut $a, &mut $sl, $i, $s) };
            ($a:ident, $sl:ident, F($i:expr)) => { do_f(&mut $a, &mut $sl, $i) };
        }
        macro_rules! script {
            ($name:ident, [$($k:ident($($arg:expr),*)),*]) => {
                #[kani::proof]
                #[kani::unwind(34)]
                pub fn $name() {
                    unsafe {
                        // the arena is uninitialised = arbitrary content (memory is zero only the first time it is mapped)
                        let mut mem = core::mem::MaybeUninit::<SmallArena>::uninit();
                        let mut a = Dlmalloc::new();
                        small_heap(&mut a, &mut mem);
                        let mut sl = no_slots();
                        $( op!(a, sl, $k($($arg),*)); )*
                        assert!(a.footprint == SMALL, "the footprint does not grow: freed space is reused");
                    }
                }
            };
        }
        script!(dbg_s1, [M(0, 24, 8)]);
        script!(dbg_s2, [M(0, 24, 8), F(0)]);
        script!(dbg_s3, [M(0, 24, 8), M(1, 40, 8), F(0), M(2, 24, 8)]);
        // @ob C03 quick s_smallbin_reuse mod=dl::harness fns=Dlmalloc::malloc,Dlmalloc::free,Dlmalloc::insert_small_chunk,Dlmalloc::unlink_small_chunk bound="listed script: small-bin reuse and exact fit" timeout=600 nocover=1
        script!(s_smallbin_reuse, [M(0, 24, 8), M(1, 40, 8), M(2, 24, 8), F(0), M(3, 24, 1), F(2), M(4, 20, 4), F(1), F(3), F(4), M(5, 1, 1), M(6, 0, 1)]);
        // @ob C03 quick s_split_remainder mod=dl::harness fns=Dlmalloc::inner_malloc,Dlmalloc::replace_dv,Dlmalloc::tmalloc_small bound="listed script: split with a remainder >= / < MIN_CHUNK_SIZE, designated victim" timeout=600 nocover=1
        script!(s_split_remainder, [M(0, 100, 8), M(1, 16, 8), F(0), M(2, 60, 8), M(3, 24, 8), M(4, 8, 8), F(2), M(5, 40, 8), M(6, 40, 8), F(1), F(3), F(4), F(5), F(6)]);
        // @ob C03 quick s_tree_bins mod=dl::harness fns=Dlmalloc::insert_large_chunk,Dlmalloc::unlink_large_chunk,Dlmalloc::tmalloc_large,Dlmalloc::tmalloc_small,Dlmalloc::compute_tree_index bound="listed script: three large chunks (two of equal size) enter the tree bins, best fit takes them out again" timeout=900 nocover=1
        script!(s_tree_bins, [M(0, 300, 8), M(1, 16, 8), M(2, 400, 8), M(3, 16, 8), M(4, 300, 8), M(5, 16, 8), F(0), F(2), F(4), M(6, 350, 8), M(0, 280, 8), M(2, 290, 8), M(7, 10, 8), F(6), F(0), F(2), F(1), F(3), F(5), F(7)]);
        // @ob C03 quick s_coalesce mod=dl::harness fns=Dlmalloc::free,Dlmalloc::unlink_chunk,Dlmalloc::insert_chunk bound="listed script: backward, forward and both-sided coalescing, merge into top" timeout=600 nocover=1
        script!(s_coalesce, [M(0, 100, 8), M(1, 100, 8), M(2, 100, 8), M(3, 100, 8), M(4, 100, 8), F(1), F(2), F(4), F(3), M(5, 380, 8), F(0), F(5)]);
        // @ob C03 quick s_memalign mod=dl::harness fns=Dlmalloc::memalign,Dlmalloc::dispose_chunk bound="listed script: over-aligned blocks (32, 64, 256) with leader and trailer given back" timeout=900 nocover=1
        script!(s_memalign, [M(0, 24, 8), M(1, 100, 64), M(2, 40, 256), M(3, 1, 32), F(1), M(4, 90, 32), F(0), F(2), F(3), F(4)]);
        // @ob C03 quick s_realloc mod=dl::harness fns=Dlmalloc::realloc,Dlmalloc::inner_realloc,Dlmalloc::try_realloc_chunk bound="listed script: reallocation that shrinks, grows into top, grows into a free neighbour, and has to move" timeout=900 nocover=1
        script!(s_realloc, [M(0, 100, 8), R(0, 40), R(0, 300), M(1, 50, 8), M(2, 50, 8), M(3, 16, 8), F(2), R(1, 90), R(0, 500), R(1, 10), F(0), F(1), F(3)]);
        // @ob C03 quick s_realloc_aligned mod=dl::harness fns=Dlmalloc::realloc,Dlmalloc::memalign bound="listed script: reallocation of over-aligned blocks (32 and 64) that cannot grow in place keeps the alignment" timeout=900 nocover=1
        script!(s_realloc_aligned, [M(0, 40, 32), M(1, 24, 8), R(0, 200), M(2, 40, 32), M(3, 8, 8), R(2, 120), M(4, 33, 64), M(5, 8, 8), R(4, 150), F(0), F(1), F(2), F(3), F(4), F(5)]);
        // @ob C03 quick s_exhaustion mod=dl::harness fns=Dlmalloc::sys_alloc,Dlmalloc::malloc,Dlmalloc::free bound="listed script: the heap runs out, the OS refuses more, the call returns null, every block survives and the heap is fully usable afterwards" timeout=900 nocover=1
        script!(s_exhaustion, [M(0, 1200, 8), M(1, 100, 8), Mnull(2, 1000, 8), Mnull(2, 700, 64), M(2, 300, 8), F(0), M(3, 1000, 8), Mnull(4, 5000, 8), F(1), F(2), F(3), M(5, 1500, 16), F(5)]);
        // @ob C03 quick s_calloc_dirty mod=dl::harness fns=Dlmalloc::calloc,Dlmalloc::calloc_must_clear bound="listed script: allocate-zeroed over memory that was written and freed before" timeout=600 nocover=1
        script!(s_calloc_dirty, [M(0, 200, 8), M(1, 64, 8), F(0), Z(2, 150, 8), Z(3, 30, 8), F(1), Z(4, 64, 16), F(2), F(3), F(4), Z(5, 600, 8), F(5)]);

        // ---------------------------------------------------------------- (3) listed concrete histories (bounded execution, not a quantifier over histories)
        fn fill(p: *mut u8, n: usize, v: u8) {
            let mut i = 0;
            while i < n {
                unsafe { *p.add(i) = v };
                i += 1;
            }
        }
        fn intact(p: *mut u8, n: usize, v: u8) -> bool {
            let i: usize = kani::any();
            kani::assume(i < n);
            unsafe { *p.add(i) == v }
        }
        fn disjoint(a: usize, an: usize, b: usize, bn: usize) -> bool {
            a + an <= b || b + bn <= a
        }

        // @ob C03 quick history_small_bins mod=dl::harness fns=Dlmalloc::malloc,Dlmalloc::free,Dlmalloc::tmalloc_small,Dlmalloc::insert_small_chunk,Dlmalloc::unlink_small_chunk,Dlmalloc::realloc bound="ONE listed history: malloc 24, malloc 40, malloc 24, free #1, malloc 24 (reuse), realloc #2 40->200, free all; fill byte and probe index symbolic" timeout=2400 nocover=1
        #[kani::proof]
        #[kani::unwind(42)]
        pub fn history_small_bins() {
            let mut mem = core::mem::MaybeUninit::<SmallArena>::uninit();
            let mut a = Dlmalloc::new();
            unsafe { small_heap(&mut a, &mut mem) };
            let v: u8 = kani::any();
            unsafe {
                let p1 = a.malloc(24, 8);
                let p2 = a.malloc(40, 8);
                let p3 = a.malloc(24, 8);
                assert!(!p1.is_null() && !p2.is_null() && !p3.is_null());
                assert!(disjoint(p1 as usize, 24, p2 as usize, 40) && disjoint(p2 as usize, 40, p3 as usize, 24) && disjoint(p1 as usize, 24, p3 as usize, 24), "live blocks are disjoint");
                fill(p2, 40, v);
                fill(p3, 24, !v);
                a.free(p1);
                let p4 = a.malloc(24, 8);
                assert!(!p4.is_null() && disjoint(p4 as usize, 24, p2 as usize, 40) && disjoint(p4 as usize, 24, p3 as usize, 24), "a reused block does not overlap live ones");
                assert!(p4 == p1, "freed space is reused by an equal request");
                fill(p4, 24, 0x5a);
                assert!(intact(p2, 40, v) && intact(p3, 24, !v), "other blocks' bytes are untouched");
                let p5 = a.realloc(p2, 40, 8, 200);
                assert!(!p5.is_null() && intact(p5, 40, v), "reallocation preserves the common prefix");
                assert!(disjoint(p5 as usize, 200, p3 as usize, 24) && disjoint(p5 as usize, 200, p4 as usize, 24));
                assert!(intact(p3, 24, !v) && intact(p4, 24, 0x5a));
                let fp = a.footprint;
                a.free(p5);
                a.free(p3);
                a.free(p4);
                assert!(a.footprint == fp, "freeing small blocks does not grow the footprint");
                let p6 = a.malloc(24, 8);
                assert!(!p6.is_null() && in_arena(p6 as usize, 24));
            }
            assert!(os().bad_unmap == 0 && os().refused == 0, "the one segment served the whole history");
        }
    }
}
