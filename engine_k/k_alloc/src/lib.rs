//! C03 harnesses: the repository's dlmalloc.rs compiled inside a wrapper module (include!), so that private fields and
//! helper functions are visible to the harness; its mmap/mremap/munmap system calls enter the symbolic kernel, which serves
//! them from two static page-aligned arenas with exact bookkeeping.
#![allow(dead_code)]
#![allow(clippy::all)]
#![allow(static_mut_refs)]

pub mod dl {
    include!("/repo/tiny-std/src/allocator/dlmalloc.rs");

    #[cfg(kani)]
    pub mod harness {
        use super::*;
        use sc::nr;
        use sc::vk::{err, ks, K};

        /// dlmalloc asks the OS for multiples of 64 KiB: one arena serves every small/medium request, anything larger is
        /// refused (ENOMEM), which is a legal answer of the OS
        pub const ARENA: usize = 64 * 1024;
        #[repr(C, align(4096))]
        pub struct Arena(pub [u64; ARENA / 8]);
        /// the two arenas live in the harness's frame, uninitialised (= arbitrary content, as freshly mapped memory is only
        /// zero the first time)
        pub type Mem = core::mem::MaybeUninit<[Arena; 2]>;
        pub struct Os {
            pub base: [usize; 2],
            pub used: [bool; 2],
            pub len: [usize; 2],
            pub mmaps: u32,
            pub refused: u32,
            pub bad_unmap: u32,
        }
        pub static mut OS: Os = Os { base: [0; 2], used: [false; 2], len: [0; 2], mmaps: 0, refused: 0, bad_unmap: 0 };
        pub fn os() -> &'static mut Os {
            unsafe { &mut *core::ptr::addr_of_mut!(OS) }
        }
        pub fn base(i: usize) -> usize {
            os().base[i]
        }

        fn hook(_k: &mut K, n: usize, a: &[usize; 6]) -> Option<usize> {
            let o = os();
            match n {
                nr::MMAP => {
                    o.mmaps += 1;
                    let len = a[1];
                    let mut i = 0;
                    while i < 2 {
                        if !o.used[i] && len <= ARENA && len > 0 {
                            o.used[i] = true;
                            o.len[i] = len;
                            return Some(base(i));
                        }
                        i += 1;
                    }
                    o.refused += 1;
                    Some(err(12))
                }
                nr::MREMAP => {
                    // growing/moving is refused (ENOMEM) - always a legal answer; shrinking in place succeeds
                    let (addr, old, new) = (a[0], a[1], a[2]);
                    if new <= old {
                        let mut i = 0;
                        while i < 2 {
                            if o.used[i] && base(i) == addr && o.len[i] == old {
                                o.len[i] = new;
                                return Some(addr);
                            }
                            i += 1;
                        }
                    }
                    Some(err(12))
                }
                nr::MUNMAP => {
                    let mut i = 0;
                    while i < 2 {
                        if o.used[i] && a[0] >= base(i) && a[0] + a[1] <= base(i) + o.len[i] {
                            if a[0] == base(i) && a[1] == o.len[i] {
                                o.used[i] = false;
                            } else if a[0] + a[1] == base(i) + o.len[i] {
                                o.len[i] -= a[1]; // tail released
                            } else {
                                o.bad_unmap += 1;
                            }
                            return Some(0);
                        }
                        i += 1;
                    }
                    o.bad_unmap += 1;
                    Some(err(22))
                }
                _ => None,
            }
        }

        pub fn setup(faults: bool, mem: &mut Mem) {
            let p = mem.as_mut_ptr() as usize;
            os().base = [p, p + ARENA];
            let k = ks();
            if faults {
                k.model_with_one_fault();
            } else {
                k.model_no_faults();
            }
            k.hook = Some(hook);
            k.max_calls = 8;
        }
        pub fn in_arena(p: usize, n: usize) -> bool {
            let o = os();
            let mut i = 0;
            while i < 2 {
                if o.used[i] && p >= base(i) && p + n <= base(i) + o.len[i] {
                    return true;
                }
                i += 1;
            }
            false
        }

        // ---------------------------------------------------------------- (1) arithmetic kernels, full width
        // @ob C03 quick arith_request2size mod=dl::harness fns=Dlmalloc::pad_request,Dlmalloc::request2size,Dlmalloc::is_small,Dlmalloc::small_index,Dlmalloc::small_index2size,align_up bound="every request size below MAX_REQUEST (full 64-bit width)" timeout=600
        #[kani::proof]
        pub fn arith_request2size() {
            let req: usize = kani::any();
            kani::assume(req < Dlmalloc::MAX_REQUEST);
            let sz = Dlmalloc::request2size(req);
            kani::cover!(req == 0, "zero-size request");
            kani::cover!(req == Dlmalloc::MAX_REQUEST - 1, "largest request");
            kani::cover!(sz == 256, "small/large boundary chunk");
            assert!(sz >= req + Dlmalloc::CHUNK_OVERHEAD, "chunk covers request plus header (no wrap)");
            assert!(sz % Dlmalloc::MALLOC_ALIGNMENT == 0, "chunk sizes are multiples of the malloc alignment");
            assert!(sz >= Dlmalloc::MIN_CHUNK_SIZE, "never below the minimum chunk");
            assert!(sz < req + Dlmalloc::CHUNK_OVERHEAD + Dlmalloc::MIN_CHUNK_SIZE + Dlmalloc::MALLOC_ALIGNMENT, "no more slack than one alignment unit / minimum chunk");
            if Dlmalloc::is_small(sz) {
                let idx = Dlmalloc::small_index(sz);
                assert!((idx as usize) < NSMALLBINS, "small bin index in range");
                assert!(Dlmalloc::small_index2size(idx) == sz, "small_index and small_index2size are inverse on chunk sizes");
            } else {
                assert!(sz >= Dlmalloc::MIN_LARGE_SIZE);
            }
        }

        /// dlmalloc's definition: smallest chunk size that maps to tree bin `idx`
        fn ref_min_size_for_tree_index(idx: u32) -> usize {
            let sh = (idx >> 1) as usize + TREEBIN_SHIFT;
            (1usize << sh) | (((idx & 1) as usize) << (sh - 1))
        }

        // @ob C03 quick arith_tree_index mod=dl::harness fns=Dlmalloc::compute_tree_index,leftshift_for_tree_index bound="every chunk size (full 64-bit width)" timeout=600
        #[kani::proof]
        pub fn arith_tree_index() {
            let sz: usize = kani::any();
            kani::assume(sz >= Dlmalloc::MIN_LARGE_SIZE);
            let idx = Dlmalloc::compute_tree_index(sz);
            kani::cover!(idx == 0, "first tree bin");
            kani::cover!(idx == 31, "last tree bin");
            assert!((idx as usize) < NTREEBINS, "tree bin index in range");
            assert!(ref_min_size_for_tree_index(idx) <= sz, "a size is not smaller than its bin's minimum");
            if idx < 31 {
                assert!(sz < ref_min_size_for_tree_index(idx + 1), "and smaller than the next bin's minimum (bins partition the sizes)");
            }
            let sh = leftshift_for_tree_index(idx);
            assert!(sh < 64, "tree descent shift stays below the word width");
        }

        // @ob C03 quick arith_bits mod=dl::harness fns=left_bits,least_bit,align_up,Dlmalloc::align_offset_usize,Dlmalloc::mmap_align bound="every 32-bit map / every address" timeout=600
        #[kani::proof]
        pub fn arith_bits() {
            let x: u32 = kani::any();
            // precondition at all three call sites (a non-empty bin map): x != 0; with x == 0 the expression `!x + 1`
            // overflows, which the callers exclude
            kani::assume(x != 0);
            let lb = least_bit(x);
            kani::cover!(x == 0x8000_0000, "only the top bit");
            assert!(lb != 0 && lb & (lb - 1) == 0 && x & lb != 0 && x & (lb - 1) == 0, "least_bit isolates the lowest set bit");
            let l = left_bits(x);
            if x != 0 && x & (x - 1) == 0 && x != 0x8000_0000 {
                // for a single bit: exactly the bits to its left
                assert!(l & x == 0 && l & (x - 1) == 0 && l | x | (x - 1) == u32::MAX, "left_bits of a single bit is everything above it");
            }
            let a: usize = kani::any();
            kani::assume(a < usize::MAX - 8192);
            let off = Dlmalloc::align_offset_usize(a);
            assert!((a + off) % Dlmalloc::MALLOC_ALIGNMENT == 0 && off < Dlmalloc::MALLOC_ALIGNMENT, "align_offset reaches the next aligned address");
            let al = align_up(a, 4096);
            assert!(al >= a && al % 4096 == 0 && al - a < 4096, "align_up to the page size");
        }

        // ---------------------------------------------------------------- (2) one operation, symbolic arguments, fresh heap
        // @ob C03 quick single_malloc_any_size mod=dl::harness fns=Dlmalloc::malloc,Dlmalloc::inner_malloc,Dlmalloc::sys_alloc,Dlmalloc::init_top,Dlmalloc::init_bins,Dlmalloc::add_segment,syscall_alloc bound="fresh heap; size any usize; alignment <= 16; the OS may refuse the mapping (one failing call)" timeout=1500
        #[kani::proof]
        #[kani::unwind(35)]
        pub fn single_malloc_any_size() {
            let mut mem = Mem::uninit();
            setup(true, &mut mem);
            let mut a = Dlmalloc::new();
            let size: usize = kani::any();
            let p = unsafe { a.malloc(size, 8) } as usize;
            let o = os();
            let k = ks();
            kani::cover!(p != 0 && size > 30_000, "large request");
            kani::cover!(p != 0 && size == 1, "tiny request");
            kani::cover!(p == 0 && k.n_failed == 1, "the OS refused memory");
            kani::cover!(p == 0 && size >= Dlmalloc::MAX_REQUEST, "request too large");
            if p != 0 {
                assert!(p % Dlmalloc::MALLOC_ALIGNMENT == 0, "aligned");
                assert!(in_arena(p, size), "the block [p, p+size) lies inside memory obtained from the OS");
                assert!(in_arena(p - Chunk::MEM_OFFSET, Chunk::MEM_OFFSET), "its header too");
                assert!(k.n_failed == 0 || o.mmaps >= 2, "served although one mapping was refused only if another succeeded");
            } else {
                assert!(size >= Dlmalloc::MAX_REQUEST || k.n_failed == 1 || o.refused >= 1, "null only when the request is too large or the OS refused");
                // nothing is lost: the allocator's bookkeeping is untouched or consistent, and a small request still works
                if k.n_failed == 1 && o.mmaps <= 1 {
                    assert!(a.footprint == 0 && a.top.is_null() && a.topsize == 0, "a refused first mapping leaves the allocator untouched");
                }
            }
            assert!(o.bad_unmap == 0, "nothing is unmapped that was not mapped");
        }

        // memalign (one call, symbolic size, alignment 32 / 256 / 8192 concrete) was built and measured: 20-25 min, 24 GB
        // exhausted or no verdict - its trimming of leader/trailer goes through dispose_chunk (the free logic). Removed.

        // calloc: even ONE calloc of a listed size with every byte checked has symbolic execution of 1 s but no SAT verdict in
        // 15 min (the 128 KiB of uninitialised arena memory as one nondeterministic array, written by write_bytes and read back).
        // A second malloc of symbolic size after a listed first one: no verdict in 30 min (both variants). Removed.

        // (3) Scripted multi-operation histories were built and measured, then removed: already a listed, fully concrete
        // script of 5 operations (malloc, malloc, free, malloc, malloc) needs 10 min of symbolic execution, 8 million steps and
        // 14-19 GB; `free` after any allocation makes the bin pointers read back from the arena non-constant for CBMC (the
        // allocator masks pointer *values* for alignment, which symbolic execution cannot fold). See DESIGN.md section 10, C03.
    }
}
