//! C07 harnesses: start-up data (tiny-start's `resolve`, `AuxValues::from_auxv`) and environment lookup.
//! `tiny-std/src/env.rs` is compiled from the repository's file itself inside a wrapper module (include!), so the
//! harness can point its private `ENV` at a symbolic environment block; no line of the repository is changed.
#![allow(dead_code)]
#![allow(clippy::all)]
#![allow(static_mut_refs)]

/// stands in for `crate::error::Error` of tiny-std, which env.rs names
pub mod error {
    #[derive(Debug, Clone, Copy)]
    pub struct Error;
    impl From<rusl::Error> for Error {
        fn from(_: rusl::Error) -> Self {
            Error
        }
    }
}

pub mod envw {
    include!("/repo/tiny-std/src/env.rs");

    #[cfg(kani)]
    pub mod harness {
        use super::*;

        const E: usize = 6; // bytes per entry incl. terminator
        pub struct Block {
            b: [[u8; E]; 3],
            ptrs: [*const u8; 4],
            key: [u8; 4],
        }
        impl Block {
            fn new() -> Self {
                Block { b: [[0; E]; 3], ptrs: [core::ptr::null(); 4], key: [0; 4] }
            }
        }

        /// environment of n <= 3 entries, each 0..=5 arbitrary non-NUL bytes ('=' anywhere, duplicates, prefixes, non-UTF-8)
        fn any_env(bl: &mut Block) -> usize {
            let n: usize = kani::any();
            kani::assume(n <= 3);
            unsafe {
                let mut i = 0;
                while i < 3 {
                    let b: [u8; E] = kani::any();
                    let len: usize = kani::any();
                    kani::assume(len < E);
                    let mut j = 0;
                    while j < E {
                        if j < len {
                            kani::assume(b[j] != 0);
                        }
                        j += 1;
                    }
                    bl.b[i] = b;
                    bl.b[i][len] = 0;
                    i += 1;
                }
                i = 0;
                while i < 3 {
                    bl.ptrs[i] = if i < n { bl.b[i].as_ptr() } else { core::ptr::null() };
                    i += 1;
                }
                bl.ptrs[3] = core::ptr::null();
                ENV.env_p = bl.ptrs.as_ptr();
            }
            n
        }
        fn entry(bl: &Block, i: usize) -> &[u8] {
            let mut l = 0;
            while bl.b[i][l] != 0 {
                l += 1;
            }
            &bl.b[i][..l]
        }
        /// definition: value of the first entry whose name equals the key exactly (entry = name '=' value)
        fn reference<'a>(bl: &'a Block, n: usize, key: &[u8]) -> Option<&'a [u8]> {
            let mut i = 0;
            while i < n {
                let e = entry(bl, i);
                if e.len() > key.len() && e[key.len()] == b'=' {
                    let mut same = true;
                    let mut j = 0;
                    while j < key.len() {
                        if e[j] != key[j] {
                            same = false;
                        }
                        j += 1;
                    }
                    if same {
                        return Some(&e[key.len() + 1..]);
                    }
                }
                i += 1;
            }
            None
        }
        fn any_key(bl: &mut Block) -> usize {
            {
                let b: [u8; 4] = kani::any();
                let len: usize = kani::any();
                kani::assume(len >= 1 && len <= 3);
                let mut j = 0;
                while j < 4 {
                    if j < len {
                        kani::assume(b[j] != 0 && b[j] != b'=' && b[j] < 0x80);
                    }
                    j += 1;
                }
                bl.key = b;
                bl.key[len] = 0;
                len
            }
        }
        fn eq(a: &[u8], b: &[u8]) -> bool {
            if a.len() != b.len() {
                return false;
            }
            let mut i = 0;
            while i < a.len() {
                if a[i] != b[i] {
                    return false;
                }
                i += 1;
            }
            true
        }

        // @ob C07 quick env_var_unix mod=envw::harness fns=env::var_unix,UnixStr::match_up_to,UnixStr::from_ptr,strlen bound="<=3 environment entries of <=5 arbitrary non-NUL bytes each, key 1..=3 bytes without '='" timeout=1500
        #[kani::proof]
        #[kani::unwind(8)]
        pub fn env_var_unix() {
            let mut bl = Block::new();
            let n = any_env(&mut bl);
            let kl = any_key(&mut bl);
            let bl = &bl;
            let key = &bl.key[..kl];
            let want = reference(bl, n, key);
            kani::cover!(want.is_some() && n == 3, "found");
            kani::cover!(want.is_none() && n == 3, "missing");
            kani::cover!(n >= 2 && want.is_some() && want.unwrap().len() == 0, "empty value");
            kani::cover!(n >= 1 && entry(bl, 0).len() == 4 && key.len() == 3 && entry(bl, 0)[2] == b'=' && entry(bl, 0)[0] == key[0] && entry(bl, 0)[1] == key[1],
                         "an entry whose name is a proper prefix of the key");
            let k = unsafe { UnixStr::from_bytes_unchecked(&bl.key[..=kl]) };
            match (var_unix(k), want) {
                (Ok(v), Some(w)) => {
                    let s = v.as_slice();
                    assert!(eq(&s[..s.len() - 1], w), "value of the first entry whose name equals the key");
                }
                (Err(VarError::Missing), None) => {}
                (Err(VarError::NotUnicode(_)), None) => assert!(false, "var_unix never reports NotUnicode"),
                (Ok(_), None) => assert!(false, "a value was returned although no entry's name equals the key"),
                (Err(_), Some(_)) => assert!(false, "reported missing although an entry's name equals the key"),
            }
        }

        // @ob C07 quick env_var_str mod=envw::harness fns=env::var,UnixStr::match_up_to_str,strlen bound="<=3 environment entries of <=5 arbitrary non-NUL bytes each, key: ASCII str 1..=3 bytes without '='" timeout=1500
        #[kani::proof]
        #[kani::unwind(8)]
        pub fn env_var_str() {
            let mut bl = Block::new();
            let n = any_env(&mut bl);
            let kl = any_key(&mut bl);
            let bl = &bl;
            let key = &bl.key[..kl];
            let want = reference(bl, n, key);
            kani::cover!(want.is_some() && n == 3, "found");
            kani::cover!(want.is_none() && n == 3, "missing");
            let ks = unsafe { core::str::from_utf8_unchecked(key) };
            match (var(ks), want) {
                (Ok(v), Some(w)) => assert!(eq(v.as_bytes(), w), "value of the first entry whose name equals the key"),
                (Err(VarError::NotUnicode(_)), Some(w)) => assert!(core::str::from_utf8(w).is_err(), "NotUnicode only for a non-UTF-8 value"),
                (Err(VarError::Missing), None) => {}
                (Ok(_), None) | (Err(VarError::NotUnicode(_)), None) => assert!(false, "an entry was selected although no entry's name equals the key"),
                (Err(VarError::Missing), Some(_)) => assert!(false, "reported missing although an entry's name equals the key"),
            }
        }

        // argument iterators yield exactly argv[0..argc) in order
        // @ob C07 quick args_iterators mod=envw::harness fns=env::args_os,ArgsOs::next,env::args,Args::next bound="argc 0..=3, arguments of <=5 arbitrary non-NUL bytes" timeout=1500
        #[kani::proof]
        #[kani::unwind(8)]
        pub fn args_iterators() {
            let mut bl = Block::new();
            let n = any_env(&mut bl); // reuse the block as the argument vector
            let bl = &bl;
            unsafe {
                ENV.arg_c = n as u64;
                ENV.arg_v = bl.ptrs.as_ptr();
            }
            kani::cover!(n == 3, "three arguments");
            kani::cover!(n == 0, "no arguments");
            let mut it = args_os();
            assert!(it.len() == n);
            let mut i = 0;
            while i < n {
                let a = it.next().expect("one item per argument");
                let s = a.as_slice();
                assert!(a.as_ptr() == bl.ptrs[i], "arguments in order");
                assert!(eq(&s[..s.len() - 1], entry(bl, i)), "argument bytes exact (empty and non-UTF-8 included)");
                i += 1;
            }
            assert!(it.next().is_none(), "exactly argc items");
        }
    }
}

#[cfg(kani)]
pub mod c07;
