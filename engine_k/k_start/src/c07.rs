//! C07 (start-up walk): tiny_start::start::resolve over a symbolic kernel stack image.
use tiny_start::start::resolve;

const W: usize = 24;

macro_rules! c07_resolve {
    ($name:ident, $argc:expr, $nenv:expr, $naux:expr) => {
        #[kani::proof]
        #[kani::unwind(8)]
        fn $name() {
            resolve_shape($argc, $nenv, $naux);
        }
    };
}
// the image LAYOUT (argc, number of environment pointers, number of aux pairs) is concrete per harness; every word of
// content (pointer values, aux keys and values) is symbolic
// @ob C07 quick resolve_0_0_0 fns=tiny_start::start::resolve,AuxValues::from_auxv,relocate_symbols(dynv=null) bound="stack image: argc=0, no environment, no aux pairs" timeout=900 nocover=1
c07_resolve!(resolve_0_0_0, 0, 0, 0);
// @ob C07 quick resolve_1_1_2 fns=tiny_start::start::resolve,AuxValues::from_auxv bound="stack image: argc=1, 1 environment pointer, 2 aux pairs with symbolic distinct keys (incl. > 51) and values" timeout=900 nocover=1
c07_resolve!(resolve_1_1_2, 1, 1, 2);
// @ob C07 quick resolve_3_2_4 fns=tiny_start::start::resolve,AuxValues::from_auxv bound="stack image: argc=3, 2 environment pointers, 4 aux pairs with symbolic distinct keys and values" timeout=900 nocover=1
c07_resolve!(resolve_3_2_4, 3, 2, 4);
// @ob C07 thorough resolve_2_3_6 fns=tiny_start::start::resolve,AuxValues::from_auxv bound="stack image: argc=2, 3 environment pointers, 6 aux pairs" timeout=2400 nocover=1
c07_resolve!(resolve_2_3_6, 2, 3, 6);

fn resolve_shape(argc: usize, nenv: usize, naux: usize) {
    let mut img: [usize; W] = kani::any();
    img[0] = argc;
    // argv[0..argc) non-null, then NULL; envp[0..nenv) non-null, then NULL
    let mut i = 0;
    while i < argc {
        kani::assume(img[1 + i] != 0);
        i += 1;
    }
    img[1 + argc] = 0;
    let envbase = 2 + argc;
    i = 0;
    while i < nenv {
        kani::assume(img[envbase + i] != 0);
        i += 1;
    }
    img[envbase + nenv] = 0;
    let auxbase = envbase + nenv + 1;
    // aux pairs: keys non-zero and pairwise distinct (the kernel never repeats a key), then AT_NULL
    i = 0;
    while i < naux {
        kani::assume(img[auxbase + 2 * i] != 0);
        let mut j = 0;
        while j < i {
            kani::assume(img[auxbase + 2 * j] != img[auxbase + 2 * i]);
            j += 1;
        }
        i += 1;
    }
    img[auxbase + 2 * naux] = 0;
    let base = img.as_ptr() as *const u8;
    let (env, aux) = unsafe { resolve(base, core::ptr::null()) };
    assert!(env.arg_c == argc as u64, "argc delivered");
    assert!(env.arg_v as *const usize == unsafe { img.as_ptr().add(1) }, "argv starts right after argc");
    assert!(env.env_p as *const usize == unsafe { img.as_ptr().add(envbase) }, "envp starts after argv's NULL");
    // every recognised key carries the value paired with it; absent keys stay 0; unknown keys change nothing
    let lookup = |key: usize| -> usize {
        let mut v = 0;
        let mut i = 0;
        while i < naux {
            if img[auxbase + 2 * i] == key {
                v = img[auxbase + 2 * i + 1];
            }
            i += 1;
        }
        v
    };
    kani::cover!(naux >= 1 && img[auxbase] > 51, "unrecognised large key");
    kani::cover!(naux >= 2 && img[auxbase] == 25 && img[auxbase + 2] == 33, "AT_RANDOM and AT_SYSINFO_EHDR present");
    assert!(aux.at_phdr == lookup(3), "AT_PHDR");
    assert!(aux.at_phent == lookup(4), "AT_PHENT");
    assert!(aux.at_phnum == lookup(5), "AT_PHNUM");
    assert!(aux.at_base == lookup(7), "AT_BASE");
    assert!(aux.at_uid == lookup(11), "AT_UID");
    assert!(aux.at_gid == lookup(13), "AT_GID");
    assert!(aux.at_secure == lookup(23), "AT_SECURE");
    assert!(aux.at_random == lookup(25), "AT_RANDOM");
    assert!(aux.at_execfn == lookup(31), "AT_EXECFN");
    assert!(aux.at_sysinfo_ehdr == lookup(33), "AT_SYSINFO_EHDR");
}
