//! C05 / C06: the two-party protocol of tiny-std threads, decided over the real spawn / join / drop / panic-handler code.
//!
//! Kani has no threads.  The schedule is therefore a symbolic variable that selects among the orders that are NOT
//! equivalent by commutation (DESIGN.md 14): the parent and the child interact only through (1) the one compare-exchange
//! each makes on the sync flag, (2) the exit futex word the kernel clears at thread exit, (3) the result slot, written by
//! the child before (1) and read by the parent after (2).  Everything else the child does after its compare-exchange
//! touches objects the parent never touches (its TLS block, its stack).  So the orders are: which compare-exchange comes
//! first, and where the kernel's clear-tid write + wake lands relative to the parent's steps.
//!
//! Replaced by a model (not encoded): the `__clone` global_asm trampoline (clone system call, child calls
//! start_fn(args), munmap(stack), exit), `get_tls_ptr` (reads the TLS register), and - through feature verif-hooks - the
//! munmap/exit inline asm at the end of the panic handler, which is issued through the `sc` crate instead.
use alloc::boxed::Box;
use core::panic::PanicInfo;
use sc::nr;
use sc::vk::{err, is_err, ks, K};
use core::sync::atomic::Ordering::Relaxed;
use tiny_std::thread::{on_panic, spawn, JoinHandle, VERIF_TLS_REGISTER};

/// message formatting is not the subject (only the main-thread branch of the panic handler prints)
pub fn stub_fmt_write(_o: &mut dyn core::fmt::Write, _a: core::fmt::Arguments<'_>) -> core::fmt::Result {
    Ok(())
}

// ------------------------------------------------------------------ heap bookkeeping (exact, by address)
extern "Rust" {
    fn __rust_alloc(size: usize, align: usize) -> *mut u8;
    fn __rust_dealloc(ptr: *mut u8, size: usize, align: usize);
}
pub const NOBJ: usize = 3;
#[derive(Copy, Clone)]
pub struct Obj {
    pub addr: usize,
    pub size: usize,
    pub align: usize,
    pub frees: u32,
}
pub struct Heap {
    pub recording: bool,
    pub n: usize,
    pub objs: [Obj; NOBJ],
    pub overflow: bool,
    pub bad_layout: u32,
}
pub static mut HEAP: Heap = Heap { recording: false, n: 0, objs: [Obj { addr: 0, size: 0, align: 0, frees: 0 }; NOBJ], overflow: false, bad_layout: 0 };
pub fn heap() -> &'static mut Heap {
    unsafe { &mut *core::ptr::addr_of_mut!(HEAP) }
}
/// stands in for alloc::alloc::alloc: the same allocation, recorded while the runtime code under test is running
pub unsafe fn alloc_model(layout: core::alloc::Layout) -> *mut u8 {
    let p = __rust_alloc(layout.size(), layout.align());
    let h = heap();
    if h.recording {
        if h.n < NOBJ {
            h.objs[h.n] = Obj { addr: p as usize, size: layout.size(), align: layout.align(), frees: 0 };
            h.n += 1;
        } else {
            h.overflow = true;
        }
    }
    p
}
pub unsafe fn dealloc_model(nn: core::ptr::NonNull<u8>, layout: core::alloc::Layout) {
    let ptr = nn.as_ptr();
    let h = heap();
    let mut i = 0;
    while i < NOBJ {
        if i < h.n && h.objs[i].addr == ptr as usize {
            h.objs[i].frees += 1;
            if h.objs[i].size != layout.size() || h.objs[i].align != layout.align() {
                h.bad_layout += 1;
            }
        }
        i += 1;
    }
    __rust_dealloc(ptr, layout.size(), layout.align());
}
impl Heap {
    /// the recorded object that contains `a`
    pub fn find(&self, a: usize) -> Option<Obj> {
        let mut i = 0;
        while i < NOBJ {
            if i < self.n && a >= self.objs[i].addr && a - self.objs[i].addr < self.objs[i].size.max(1) {
                return Some(self.objs[i]);
            }
            i += 1;
        }
        None
    }
    pub fn live(&self) -> usize {
        let mut c = 0;
        let mut i = 0;
        while i < NOBJ {
            if i < self.n && self.objs[i].frees == 0 {
                c += 1;
            }
            i += 1;
        }
        c
    }
}

pub const CLONE_CHILD_CLEARTID: usize = 0x0020_0000;
pub const CLONE_SETTLS: usize = 0x0008_0000;
pub const CLONE_VM: usize = 0x100;
pub const CLONE_THREAD: usize = 0x1_0000;
pub const STACK_SZ: usize = 8192 * 16 * 16;
pub const BACKED: usize = 256;

pub struct Th {
    // what clone() was given
    pub cloned: bool,
    pub start_fn: usize,
    pub args: usize,
    pub tls: usize,
    pub unmap: usize,
    pub unmap_sz: usize,
    // kernel side
    pub tid_addr: usize,
    pub ctid0: usize,
    pub child_started: bool,
    pub child_exited: bool,
    pub exit_pending: bool,
    pub defer_exit: bool,
    pub cur_tls: usize,
    pub main_tls: usize,
    pub stack_base: usize,
    pub stack_obj: usize,
    pub stack_len: usize,
    pub stack_live: bool,
    pub stack_unmaps: u32,
    pub bad_unmap: u32,
    pub spurious_left: u8,
    pub may_run_child_in_wait: bool,
    // observation
    pub runs: u32,
    pub joined: bool,
    pub cont: Option<fn()>,
    pub handle: usize,
    pub expect_panic: bool,
    pub finale_done: bool,
    pub order: u8,
}
pub static mut TH: Th = Th {
    cloned: false,
    start_fn: 0,
    args: 0,
    tls: 0,
    unmap: 0,
    unmap_sz: 0,
    tid_addr: 0,
    ctid0: 0,
    child_started: false,
    child_exited: false,
    exit_pending: false,
    defer_exit: false,
    cur_tls: 0,
    main_tls: 0,
    stack_base: 0,
    stack_obj: 0,
    stack_len: 0,
    stack_live: false,
    stack_unmaps: 0,
    bad_unmap: 0,
    spurious_left: 0,
    may_run_child_in_wait: false,
    runs: 0,
    joined: false,
    cont: None,
    handle: 0,
    expect_panic: false,
    finale_done: false,
    order: 0,
};
pub fn set_tls(v: usize) {
    th().cur_tls = v;
    VERIF_TLS_REGISTER.store(v, Relaxed);
}
pub fn th() -> &'static mut Th {
    unsafe { &mut *core::ptr::addr_of_mut!(TH) }
}

/// stand-in for the `__clone` trampoline: the clone system call with the register assignment the asm makes
/// (flags, stack, parent_tid = 0, child_tid, tls); the child part is run later by `run_child`
pub unsafe fn clone_model(start_fn: usize, stack_ptr: usize, flags: i32, args_ptr: usize, tls_ptr: usize, child_tid_ptr: usize, stack_unmap_ptr: usize, stack_sz: usize) -> i32 {
    let r = sc::syscall5(nr::CLONE, flags as u32 as usize, stack_ptr, 0, child_tid_ptr, tls_ptr);
    if is_err(r) {
        return r as i32;
    }
    let t = th();
    t.cloned = true;
    t.start_fn = start_fn;
    t.args = args_ptr;
    t.tls = tls_ptr;
    t.unmap = stack_unmap_ptr;
    t.unmap_sz = stack_sz;
    r as i32
}

/// what the kernel does when a thread exits: clear_child_tid
unsafe fn kernel_clear_tid() {
    let t = th();
    if t.tid_addr != 0 {
        // the kernel writes 0 there and wakes one waiter; if the memory is gone this is the wild write the code's own
        // comment warns about
        let p = t.tid_addr as *mut u32;
        let o = heap().find(t.tid_addr);
        assert!(matches!(o, Some(o) if o.frees == 0), "the kernel's clear-tid write at thread exit lands in memory that was already freed");
        *p = 0;
    }
    t.exit_pending = false;
    t.child_exited = true;
}
unsafe fn thread_exit() {
    let t = th();
    if t.defer_exit {
        // the thread has made its last user-space step; the kernel's part is still to come
        t.exit_pending = true;
    } else {
        kernel_clear_tid();
    }
}

/// the child: what `__clone`'s asm does after clone() returned 0
pub unsafe fn run_child() {
    let t = th();
    assert!(t.cloned && !t.child_started);
    t.child_started = true;
    set_tls(t.tls);
    let f: unsafe extern "C" fn(*mut u8) -> i32 = core::mem::transmute(t.start_fn);
    f(t.args as *mut u8);
    sc::syscall2(nr::MUNMAP, t.unmap, t.unmap_sz);
    thread_exit();
    set_tls(t.main_tls);
}

fn hook(_k: &mut K, n: usize, a: &[usize; 6]) -> Option<usize> {
    let t = th();
    unsafe {
        match n {
            nr::MMAP => {
                // the thread's stack: one real object of the requested size, so that every access to it is checked
                if t.stack_live || a[1] != STACK_SZ {
                    return Some(err(12));
                }
                // only the top BACKED bytes of the mapping are backed by an object (the encoded code touches nothing
                // below: StartArgs sits in the top 8 bytes); the mapping's address is computed from it
                let rec = heap().recording;
                heap().recording = false;
                let top = alloc::alloc::alloc(core::alloc::Layout::from_size_align_unchecked(BACKED, 4096)) as usize;
                heap().recording = rec;
                t.stack_obj = top;
                let p = top.wrapping_add(BACKED).wrapping_sub(a[1]);
                t.stack_base = p;
                t.stack_len = a[1];
                t.stack_live = true;
                Some(p)
            }
            nr::MUNMAP => {
                if t.stack_live && a[0] == t.stack_base && a[1] == t.stack_len {
                    alloc::alloc::dealloc(t.stack_obj as *mut u8, core::alloc::Layout::from_size_align_unchecked(BACKED, 4096));
                    t.stack_live = false;
                    t.stack_unmaps += 1;
                    Some(0)
                } else {
                    t.bad_unmap += 1;
                    Some(err(22))
                }
            }
            nr::CLONE => {
                let flags = a[0];
                assert!(flags & CLONE_VM != 0 && flags & CLONE_THREAD != 0, "a thread shares the address space");
                assert!(t.stack_live && a[1].wrapping_sub(t.stack_base) > 0 && a[1].wrapping_sub(t.stack_base) <= t.stack_len, "the child's stack pointer lies in the mapping made for it");
                if flags & CLONE_CHILD_CLEARTID != 0 {
                    t.tid_addr = a[3];
                    t.ctid0 = a[3];
                }
                Some(4711)
            }
            nr::SET_TID_ADDRESS => {
                // only the running thread's own clear_child_tid
                if t.cur_tls == t.tls && t.tls != 0 {
                    t.tid_addr = a[0];
                }
                Some(4711)
            }
            nr::FUTEX => {
                let addr = a[0];
                let op = a[1] & 0x7f;
                if op == 1 {
                    return Some(0); // WAKE: nobody is parked in this sequential model
                }
                assert!(op == 0, "only FUTEX_WAIT / FUTEX_WAKE are used");
                let cur = *(addr as *const u32);
                if cur != a[2] as u32 {
                    return Some(err(11)); // EAGAIN
                }
                // the caller would park now
                if t.spurious_left > 0 {
                    let sp: u8 = kani::any();
                    if sp == 1 {
                        t.spurious_left -= 1;
                        return Some(0); // woken by an unrelated FUTEX_WAKE on a recycled address (futex(2): callers must assume this)
                    }
                    if sp == 2 {
                        t.spurious_left -= 1;
                        return Some(err(4)); // EINTR
                    }
                }
                if t.exit_pending && addr == t.tid_addr {
                    kernel_clear_tid();
                    return Some(0);
                }
                assert!(false, "join/drop waits on the exit futex although no thread will ever clear it: it never returns");
                kani::assume(false);
                Some(0)
            }
            nr::EXIT => {
                // reached only from the thread panic handler (verif-hooks): the thread is gone; whatever the rest of the
                // program does next runs as the continuation
                thread_exit();
                set_tls(t.main_tls);
                if let Some(c) = t.cont {
                    c();
                }
                kani::assume(false);
                Some(0)
            }
            _ => None,
        }
    }
}

pub fn setup(faults: bool) {
    let k = ks();
    k.model_no_faults();
    if faults {
        // "failure of each system call spawn performs": the stack mmap (call 0) or the clone (call 1), any errno
        let at: u8 = kani::any();
        kani::assume(at <= 2);
        k.fail_mask = if at == 2 { 0 } else { 1u32 << at };
    }
    k.hook = Some(hook);
    k.max_calls = 16;
}

fn fake_panic_info() -> &'static PanicInfo<'static> {
    // the thread branch of the handler never looks at it
    let b = Box::leak(Box::new([0usize; 16]));
    unsafe { &*(b.as_ptr() as *const PanicInfo<'static>) }
}

#[derive(Copy, Clone, PartialEq, Eq, Debug)]
#[repr(align(64))]
pub struct Over(pub u8);
impl kani::Arbitrary for Over {
    fn any() -> Self {
        Over(kani::any())
    }
}

/// parent action after spawn: 0 = join, 1 = drop the handle
unsafe fn parent_action<T: PartialEq + Copy + 'static>(join: bool, v: T) {
    let t = th();
    let h = *Box::from_raw(t.handle as *mut JoinHandle<T>);
    if join {
        let r = h.join();
        t.joined = true;
        assert!(t.child_exited, "join returned before the thread had finished");
        if t.expect_panic {
            assert!(r.is_none(), "join of a panicked thread returns None");
        } else {
            assert!(r == Some(v), "join returns the closure's value");
        }
    } else {
        drop(h);
    }
}

/// final state, whatever the order was
unsafe fn finale() {
    let t = th();
    if t.exit_pending {
        kernel_clear_tid();
    }
    t.finale_done = true;
    assert!(t.runs == 1, "the closure ran exactly once");
    assert!(t.child_exited);
    assert!(t.stack_unmaps == 1 && !t.stack_live && t.bad_unmap == 0, "the stack mapping is released exactly once");
    let h = heap();
    assert!(!h.overflow);
    assert!(matches!(h.find(t.ctid0), Some(o) if o.frees == 1), "the join state (thread shared memory) is freed exactly once");
    assert!(matches!(h.find(t.tls), Some(o) if o.frees == 1), "the thread-local block is freed exactly once");
    assert!(h.bad_layout == 0, "every block is freed with the layout it was allocated with");
    // what may stay behind: a panicked thread leaves its closure (never dropped)
    #[cfg(dbg_live)]
    if !t.expect_panic {
        kani::cover!(h.n == 3, "dbg n3");
        kani::cover!(h.n == 4, "dbg n4");
        kani::cover!(h.objs[0].frees == 0, "dbg o0 live");
        kani::cover!(h.objs[1].frees == 0, "dbg o1 live");
        kani::cover!(h.objs[2].frees == 0, "dbg o2 live");
        kani::cover!(h.objs[1].frees == 0 && t.order == 0, "dbg o1 live order0");
        kani::cover!(h.objs[1].frees == 0 && t.order == 1, "dbg o1 live order1");
        kani::cover!(h.objs[1].frees == 0 && t.order == 2, "dbg o1 live order2");
        kani::cover!(h.objs[1].frees == 0 && t.joined, "dbg o1 live joined");
    }
    if t.expect_panic {
        assert!(h.live() <= 1, "a panicked thread leaves at most its own closure behind");
    } else {
        assert!(h.live() == 0, "nothing the runtime allocated for the thread is left behind");
    }
}

/// One thread from spawn to the end of both parties.
/// order 0: the child runs to completion (kernel exit effects included) before the parent's next step
/// order 1: the child makes all its user-space steps first, the kernel's clear-tid write + wake lands while the parent waits
/// order 2: the parent acts first; the child runs when the parent blocks (join) or after the parent is done (drop)
pub struct Info {
    pub spawned: bool,
    pub mmap_failed: bool,
    pub clone_failed: bool,
    pub panics: bool,
    pub join: bool,
    pub order: u8,
}
unsafe fn scenario<T: PartialEq + Copy + Send + kani::Arbitrary + 'static>(faults: bool, spurious: u8, panic_allowed: bool, covers: fn(&Info)) {
    setup(faults);
    let t = th();
    // the main thread's TLS block as start.rs sets it up: self pointer, no stack info (two words + Option<ThreadDealloc>)
    let main_tls = Box::leak(Box::new([0usize; 5]));
    main_tls[0] = main_tls.as_ptr() as usize;
    t.main_tls = main_tls.as_ptr() as usize;
    set_tls(t.main_tls);
    let v: T = kani::any();
    let panics: bool = kani::any();
    kani::assume(panic_allowed || !panics);
    let join: bool = kani::any();
    let order: u8 = kani::any();
    kani::assume(order <= 2);
    t.expect_panic = panics;
    t.order = order;
    t.spurious_left = spurious;
    heap().recording = true;
    let r = spawn(move || {
        th().runs += 1;
        if panics {
            on_panic(fake_panic_info());
        }
        v
    });
    heap().recording = false;
    let k = ks();
    let h = match r {
        Ok(h) => h,
        Err(_) => {
            covers(&Info { spawned: false, mmap_failed: k.log[0].nr == nr::MMAP && k.log[0].failed, clone_failed: k.log[1].nr == nr::CLONE && k.log[1].failed, panics, join, order });
            assert!(k.n_failed == 1, "spawn fails only when a system call it makes failed");
            assert!(!t.cloned && t.runs == 0, "no thread was created");
            assert!(!t.stack_live, "a failed spawn leaves no stack mapping behind");
            assert!(heap().live() == 0 && !heap().overflow, "a failed spawn leaves nothing allocated behind");
            return;
        }
    };
    assert!(t.cloned, "spawn returned a handle although no thread was created: its join can never return");
    t.handle = Box::into_raw(Box::new(h)) as usize;
    covers(&Info { spawned: true, mmap_failed: false, clone_failed: false, panics, join, order });
    if order == 2 {
        // the parent's compare-exchange comes first.  Only a dropped handle makes one; a join that starts before the
        // child has done anything only loads the exit futex and parks, which commutes with the child's user-space steps
        // (they never write that word): join-first is order 1
        kani::assume(!join);
        parent_action::<T>(false, v);
        t.cont = Some(finale_fn);
        run_child();
        finale();
    } else {
        t.defer_exit = order == 1;
        if panics {
            t.cont = Some(if join { cont_join::<T> } else { cont_drop::<T> });
            STASH_V = Box::into_raw(Box::new(v)) as usize;
            run_child();
            unreachable!();
        }
        run_child();
        parent_action::<T>(join, v);
        finale();
    }
}
static mut STASH_V: usize = 0;
fn cont_join<T: PartialEq + Copy + Send + kani::Arbitrary + 'static>() {
    unsafe {
        let v = *(STASH_V as *const T);
        parent_action::<T>(true, v);
        finale();
    }
}
fn cont_drop<T: PartialEq + Copy + Send + kani::Arbitrary + 'static>() {
    unsafe {
        let v = *(STASH_V as *const T);
        parent_action::<T>(false, v);
        finale();
    }
}
fn finale_fn() {
    unsafe { finale() }
}

fn covers_plain(i: &Info) {
    kani::cover!(i.panics && i.join, "panicking thread, joined");
    kani::cover!(i.panics && !i.join && i.order == 2, "handle dropped first, then the thread panics");
    kani::cover!(!i.panics && !i.join && i.order == 2, "handle dropped before the thread finished");
    kani::cover!(!i.panics && i.join && i.order == 1, "thread exits while the parent waits in join");
    kani::cover!(!i.panics && !i.join && i.order == 1, "thread exits while the parent's drop waits for it");
}
fn covers_nopanic(i: &Info) {
    kani::cover!(!i.join && i.order == 2, "handle dropped before the thread finished");
    kani::cover!(i.join && i.order == 1, "thread exits while the parent waits in join");
}
fn covers_faults(i: &Info) {
    kani::cover!(!i.spawned && i.mmap_failed, "spawn fails because the stack cannot be mapped");
    kani::cover!(!i.spawned && i.clone_failed, "spawn fails because clone fails");
    kani::cover!(i.spawned && i.join, "no failure: thread joined");
}

macro_rules! thread_harness {
    ($name:ident, $t:ty, $faults:expr, $spurious:expr, $panic:expr, $covers:expr, $unwind:expr) => {
        #[kani::proof]
        #[kani::stub(tiny_std::thread::spawn::__clone, clone_model)]
        #[kani::stub(core::fmt::write, stub_fmt_write)]
        #[kani::stub(alloc::alloc::alloc, alloc_model)]
        #[kani::stub(alloc::alloc::dealloc_nonnull, dealloc_model)]
        #[kani::unwind($unwind)]
        fn $name() {
            unsafe { scenario::<$t>($faults, $spurious, $panic, $covers) }
        }
    };
}

// Every obligation below checks the C05 assertions (closure runs once, join waits for the exit and returns the value / None,
// failed spawn returns an error) and the C06 assertions (stack, TLS block, join state released exactly once, never
// under a party that can still touch them, nothing left behind) together; they are listed under both properties.
// @ob C05 quick thread_u32 fns=thread::spawn,JoinHandle::join,JoinHandle::drop,wait_until_finished,Tsm::init,Tsm::dealloc,Tsm::layout_thread_shared_memory,on_panic,start_fn,onwed_split_fn_once,futex_wait_fast bound="one thread; result type u32 (value symbolic); closure returns or panics; handle joined or dropped; the 3 orders that do not commute; no spurious futex return; no system-call failure" timeout=2400 mem=16 replay=none stubs="__clone (global_asm trampoline) -> clone_model; core::fmt::write; alloc::alloc::alloc/dealloc_nonnull -> same allocation plus bookkeeping"
thread_harness!(thread_u32, u32, false, 0, true, covers_plain, 4);
// @ob C06 quick thread_u32 fns=thread::spawn,JoinHandle::join,JoinHandle::drop,on_panic,Tsm::dealloc bound="as C05 thread_u32: every order of {returns, panics} x {joined, dropped before / while / after the thread finishes} for one thread" timeout=2400 mem=16 replay=none
// @ob C05 quick thread_u32_spurious fns=wait_until_finished,futex_wait_fast,JoinHandle::join,JoinHandle::drop bound="as thread_u32 without panic, plus at most one spurious return (0 or EINTR) of a FUTEX_WAIT that would have parked" timeout=2400 mem=16 replay=none
thread_harness!(thread_u32_spurious, u32, false, 1, false, covers_nopanic, 4);
// @ob C06 quick thread_u32_spurious fns=wait_until_finished,JoinHandle::drop bound="as C05 thread_u32_spurious" timeout=2400 mem=16 replay=none
// @ob C05 quick thread_u32_faults fns=thread::spawn,drop_boxed_fn_once bound="as thread_u32 without panic, and the stack mmap or the clone fails with an arbitrary errno" timeout=2400 mem=16 replay=none
thread_harness!(thread_u32_faults, u32, true, 0, false, covers_faults, 4);
// @ob C06 quick thread_u32_faults fns=thread::spawn bound="as C05 thread_u32_faults: a failed spawn leaves no mapping and no allocation behind" timeout=2400 mem=16 replay=none
// result layouts: zero-sized, over-aligned (64), 16-byte
// @ob C05 thorough thread_unit fns=thread::spawn,JoinHandle::join,Tsm::value_offset bound="as thread_u32, result type () (zero-sized)" timeout=3000 mem=16 replay=none
thread_harness!(thread_unit, (), false, 0, true, covers_plain, 4);
// @ob C05 thorough thread_over_aligned fns=thread::spawn,JoinHandle::join,Tsm::value_offset,Tsm::layout_thread_shared_memory bound="as thread_u32, result type #[repr(align(64))] struct (over-aligned)" timeout=3000 mem=16 replay=none
thread_harness!(thread_over_aligned, Over, false, 0, true, covers_plain, 4);
// @ob C06 thorough thread_over_aligned fns=Tsm::init,Tsm::dealloc,Tsm::get_layout bound="as C05 thread_over_aligned: the join state of an over-aligned result type is freed with the layout it was allocated with" timeout=3000 mem=16 replay=none
// @ob C06 thorough thread_unit fns=Tsm::init,Tsm::dealloc bound="as C05 thread_unit (zero-sized result)" timeout=3000 mem=16 replay=none
// @ob C05 thorough thread_u128 fns=thread::spawn,JoinHandle::join bound="as thread_u32, result type u128" timeout=3000 mem=16 replay=none
thread_harness!(thread_u128, u128, false, 0, true, covers_plain, 4);
// @ob C05 thorough thread_u32_spurious2 fns=wait_until_finished,futex_wait_fast bound="as thread_u32 with panic, plus at most two spurious futex returns" timeout=3400 mem=20 replay=none
thread_harness!(thread_u32_spurious2, u32, false, 2, true, covers_plain, 6);
