//! Kani harnesses over tiny-std's thread runtime (thread::spawn, JoinHandle::join/drop, the thread panic handler) compiled
//! from /repo/tiny-std with features threaded + verif-hooks — properties C05 C06.
#![allow(dead_code)]
#![allow(unused_imports)]
#![allow(clippy::all)]
extern crate alloc;

#[cfg(kani)]
pub mod c05;
