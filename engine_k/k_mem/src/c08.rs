//! C08 harnesses (see lib.rs)
use tiny_start::symbols::mem::{bcmp, memcmp, memcpy, memmove, memset};

const B: usize = 64;

#[repr(C, align(16))]
struct Buf([u8; B]);

fn any_buf() -> Buf {
    Buf(kani::any())
}

macro_rules! c08_memcpy {
    ($name:ident, $nmax:expr, $offmax:expr, $u:expr) => {
        #[kani::proof]
        #[kani::unwind($u)]
        fn $name() {
            let src = any_buf();
            let mut dst = any_buf();
            let before = Buf(dst.0);
            let n: usize = kani::any();
            let so: usize = kani::any();
            let d_o: usize = kani::any();
            kani::assume(n <= $nmax && so <= $offmax && d_o <= $offmax);
            kani::assume(d_o >= 1); // keep a red zone in front of the destination as well
            kani::cover!(n == $nmax && d_o == 3 && so == 5, "longest copy, both misaligned differently");
            kani::cover!(n >= 16 && (d_o & 7) == (so & 7), "word path with co-aligned source");
            kani::cover!(n >= 16 && (d_o & 7) != (so & 7), "word path with misaligned source");
            kani::cover!(n == 15, "just below the word threshold");
            kani::cover!(n == 0, "empty copy");
            let r = unsafe { memcpy(dst.0.as_mut_ptr().add(d_o), src.0.as_ptr().add(so), n) };
            assert!(r == unsafe { dst.0.as_mut_ptr().add(d_o) }, "returns dest");
            let i: usize = kani::any();
            kani::assume(i < B);
            if i >= d_o && i < d_o + n {
                assert!(dst.0[i] == src.0[so + (i - d_o)], "every destination byte equals the source byte");
            } else {
                assert!(dst.0[i] == before.0[i], "no byte outside the destination range is written");
            }
        }
    };
}
// @ob C08 quick memcpy_n24 fns=memcpy,copy_forward,read_usize_unaligned bound="n 0..=24, src/dest misalignment 0..=7 (dest 1..=7 and 8 for the red zone), all byte values" timeout=1500
c08_memcpy!(memcpy_n24, 24, 8, 27);
// @ob C08 thorough memcpy_n40 fns=memcpy,copy_forward,read_usize_unaligned bound="n 0..=40 (2*threshold+word), misalignment 0..=15" timeout=3400
c08_memcpy!(memcpy_n40, 40, 15, 43);

macro_rules! c08_memset {
    ($name:ident, $nmax:expr, $offmax:expr, $u:expr) => {
        #[kani::proof]
        #[kani::unwind($u)]
        fn $name() {
            let mut dst = any_buf();
            let before = Buf(dst.0);
            let n: usize = kani::any();
            let d_o: usize = kani::any();
            let c: i32 = kani::any();
            kani::assume(n <= $nmax && d_o >= 1 && d_o <= $offmax);
            kani::cover!(n == $nmax && d_o == 3, "longest fill, misaligned");
            kani::cover!(n == 16 && d_o == 8, "threshold, aligned");
            kani::cover!(c > 255 || c < 0, "fill value wider than a byte");
            let r = unsafe { memset(dst.0.as_mut_ptr().add(d_o), c, n) };
            assert!(r == unsafe { dst.0.as_mut_ptr().add(d_o) }, "returns s");
            let i: usize = kani::any();
            kani::assume(i < B);
            if i >= d_o && i < d_o + n {
                assert!(dst.0[i] == c as u8, "filled with the value converted to unsigned char");
            } else {
                assert!(dst.0[i] == before.0[i], "no byte outside the range is written");
            }
        }
    };
}
// @ob C08 quick memset_n24 fns=memset,set_bytes bound="n 0..=24, misalignment 1..=8, every fill value (any c_int)" timeout=1500
c08_memset!(memset_n24, 24, 8, 27);
// @ob C08 thorough memset_n40 fns=memset,set_bytes bound="n 0..=40, misalignment 1..=15, every fill value" timeout=3400
c08_memset!(memset_n40, 40, 15, 43);

macro_rules! c08_memcmp {
    ($name:ident, $f:ident, $nmax:expr, $offmax:expr, $u:expr, $sign:expr) => {
        #[kani::proof]
        #[kani::unwind($u)]
        fn $name() {
            let a = any_buf();
            let b = any_buf();
            let n: usize = kani::any();
            let ao: usize = kani::any();
            let bo: usize = kani::any();
            kani::assume(n <= $nmax && ao <= $offmax && bo <= $offmax);
            // position of the first differing byte (or n)
            let k: usize = kani::any();
            kani::assume(k <= n);
            let mut j = 0;
            while j < $nmax {
                if j < k {
                    kani::assume(a.0[ao + j] == b.0[bo + j]);
                }
                j += 1;
            }
            kani::assume(k == n || a.0[ao + k] != b.0[bo + k]);
            kani::cover!(k == n && n == $nmax, "equal over the longest length");
            kani::cover!(k + 1 == n && n == $nmax, "first difference at the very last byte");
            kani::cover!(k == 0 && n > 1, "first difference at the first byte");
            kani::cover!(n == 0, "empty comparison");
            let r = unsafe { $f(a.0.as_ptr().add(ao), b.0.as_ptr().add(bo), n) };
            if k == n {
                assert!(r == 0, "equal ranges compare equal");
            } else if $sign {
                let (x, y) = (a.0[ao + k], b.0[bo + k]);
                assert!((r < 0) == (x < y) && (r > 0) == (x > y), "sign follows the first differing byte (as unsigned char)");
            } else {
                assert!(r != 0, "different ranges compare unequal");
            }
        }
    };
}
// @ob C08 quick memcmp_n24 fns=memcmp,compare_bytes bound="n 0..=24, offsets 0..=8, every position of the first differing byte, all byte values" timeout=1500
c08_memcmp!(memcmp_n24, memcmp, 24, 8, 27, true);
// @ob C08 quick bcmp_n24 fns=bcmp,memcmp bound="n 0..=24, offsets 0..=8, every position of the first differing byte" timeout=1500
c08_memcmp!(bcmp_n24, bcmp, 24, 8, 27, false);
// @ob C08 thorough memcmp_n40 fns=memcmp,compare_bytes bound="n 0..=40, offsets 0..=15" timeout=3400
c08_memcmp!(memcmp_n40, memcmp, 40, 15, 43, true);

// memmove: both ranges inside ONE buffer; split by overlap case so that each query finishes.
// mode 0: dest after src and overlapping (backward copy); 1: dest before src and overlapping (forward copy);
// 2: disjoint or identical.
macro_rules! c08_memmove {
    ($name:ident, $nmax:expr, $mode:expr, $u:expr) => {
        #[kani::proof]
        #[kani::unwind($u)]
        fn $name() {
            let mut buf = any_buf();
            let before = Buf(buf.0);
            let n: usize = kani::any();
            let so: usize = kani::any();
            let d_o: usize = kani::any();
            kani::assume(n <= $nmax && so >= 1 && d_o >= 1 && so < B && d_o < B);
                kani::assume(so + n < B && d_o + n < B);
            match $mode {
                0 => kani::assume(d_o > so && d_o < so + n && so <= 8),
                1 => kani::assume(so > d_o && so < d_o + n && d_o <= 8),
                _ => kani::assume((d_o == so || d_o >= so + n || so >= d_o + n) && so <= 16 && d_o <= 40 && (d_o == so || d_o >= so + n || d_o <= 8)),
            }
            kani::cover!(n == $nmax, "longest move");
            kani::cover!(n >= 16 && (d_o > so && d_o - so == 1 || so > d_o && so - d_o == 1), "overlap distance 1 on the word path");
            kani::cover!(n >= 17 && (d_o & 7) != 0 && (so & 7) != (d_o & 7), "misaligned both ways on the word path");
            let r = unsafe { memmove(buf.0.as_mut_ptr().add(d_o), buf.0.as_ptr().add(so), n) };
            assert!(r == unsafe { buf.0.as_mut_ptr().add(d_o) }, "returns dest");
            let i: usize = kani::any();
            kani::assume(i < B);
            if i >= d_o && i < d_o + n {
                assert!(buf.0[i] == before.0[so + (i - d_o)], "destination holds the ORIGINAL source bytes (overlap-safe)");
            } else {
                assert!(buf.0[i] == before.0[i], "no byte outside the destination range is written");
            }
        }
    };
}
// @ob C08 quick memmove_back_n18 fns=memmove,copy_backward bound="n 0..=18, dest inside (src, src+n): every overlap distance, src offset 1..=8" timeout=1500 nocover=1
c08_memmove!(memmove_back_n18, 18, 0, 21);
// @ob C08 quick memmove_fwd_n18 fns=memmove,copy_forward bound="n 0..=18, src inside (dest, dest+n): every overlap distance, dest offset 1..=8" timeout=1500 nocover=1
c08_memmove!(memmove_fwd_n18, 18, 1, 21);
// @ob C08 quick memmove_disjoint_n12 fns=memmove,copy_forward,copy_backward bound="n 0..=12, disjoint or identical ranges either side (the overlapping cases go to n 18)" timeout=1500 nocover=1
c08_memmove!(memmove_disjoint_n12, 12, 2, 15);
// @ob C08 thorough memmove_disjoint_n18 fns=memmove,copy_forward,copy_backward bound="n 0..=18, disjoint or identical ranges either side" timeout=3000 nocover=1
c08_memmove!(memmove_disjoint_n18, 18, 2, 21);
// @ob C08 thorough memmove_back_n26 fns=memmove,copy_backward bound="n 0..=26, backward overlap" timeout=3400 nocover=1
c08_memmove!(memmove_back_n26, 26, 0, 29);
// @ob C08 thorough memmove_fwd_n26 fns=memmove,copy_forward bound="n 0..=26, forward overlap" timeout=3400 nocover=1
c08_memmove!(memmove_fwd_n26, 26, 1, 29);
