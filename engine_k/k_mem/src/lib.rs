//! C08 — memcpy/memmove/memset/memcmp/bcmp of tiny-start (feature `mem-symbols`) match the C definitions
//! for every length, alignment and overlap within the bound, and never write outside the destination.
//! The functions are called through their Rust paths; Kani executes the real loops (unwound), not CBMC's
//! built-in memcpy.
#![allow(dead_code)]
#![allow(clippy::all)]

#[cfg(kani)]
mod c08;
