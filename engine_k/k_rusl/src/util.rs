use rusl::string::unix_str::UnixStr;

/// A `&UnixStr` with symbolic content of symbolic length `< N` (N = buffer incl. terminator),
/// no interior NUL, every byte value 1..=255 possible.
pub fn any_unix<const N: usize>(buf: &mut [u8; N]) -> (&UnixStr, usize) {
    *buf = kani::any();
    let len: usize = kani::any();
    kani::assume(len < N);
    let mut i = 0;
    while i < N {
        if i < len {
            kani::assume(buf[i] != 0);
        }
        i += 1;
    }
    buf[len] = 0;
    (unsafe { UnixStr::from_bytes_unchecked(&buf[..=len]) }, len)
}

/// Content (without terminator) of a UnixStr.
pub fn content(u: &UnixStr) -> &[u8] {
    let s = u.as_slice();
    &s[..s.len() - 1]
}

pub fn slices_eq(a: &[u8], b: &[u8]) -> bool {
    if a.len() != b.len() {
        return false;
    }
    let mut i = 0;
    while i < a.len() {
        if a[i] != b[i] {
            return false;
        }
        i += 1;
    }
    true
}

/// Byte-string definition: index of the first occurrence of `needle` in `hay`.
pub fn ref_find(hay: &[u8], needle: &[u8]) -> Option<usize> {
    if needle.len() > hay.len() {
        return None;
    }
    let mut i = 0;
    while i + needle.len() <= hay.len() {
        let mut j = 0;
        let mut ok = true;
        while j < needle.len() {
            if hay[i + j] != needle[j] {
                ok = false;
                break;
            }
            j += 1;
        }
        if ok {
            return Some(i);
        }
        i += 1;
    }
    None
}

pub fn ref_common_prefix(a: &[u8], b: &[u8]) -> usize {
    let mut i = 0;
    while i < a.len() && i < b.len() && a[i] == b[i] {
        i += 1;
    }
    i
}

pub fn ref_ends_with(a: &[u8], b: &[u8]) -> bool {
    if b.len() > a.len() {
        return false;
    }
    let off = a.len() - b.len();
    let mut i = 0;
    while i < b.len() {
        if a[off + i] != b[i] {
            return false;
        }
        i += 1;
    }
    true
}

pub fn ref_last_slash(a: &[u8]) -> Option<usize> {
    let mut i = a.len();
    while i > 0 {
        i -= 1;
        if a[i] == b'/' {
            return Some(i);
        }
    }
    None
}
