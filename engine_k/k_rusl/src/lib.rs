//! Kani harnesses over rusl (compiled from /repo/rusl, unchanged) — properties C09 C10 C11 C16 C17 C18.
//! Obligation metadata for the driver lives in `// @ob` comment lines directly above each harness.
#![allow(dead_code)]
#![allow(unused_imports)]
#![allow(clippy::all)]
extern crate alloc;

#[cfg(kani)]
pub mod util;
#[cfg(kani)]
pub mod c11;
#[cfg(kani)]
pub mod c10;
#[cfg(kani)]
pub mod c09;
#[cfg(kani)]
pub mod c17;
#[cfg(kani)]
pub mod c16;
#[cfg(kani)]
pub mod c18;
