//! C11 — UnixStr search and path operations agree with their byte-string definitions.
use crate::util::*;
use alloc::vec::Vec;
use rusl::string::unix_str::{UnixStr, UnixString};

macro_rules! c11_find {
    ($name:ident, $n:expr, $u:expr) => {
        #[kani::proof]
        #[kani::unwind($u)]
        fn $name() {
            let mut hb = [0u8; $n];
            let mut nb = [0u8; $n];
            let (h, hl) = any_unix(&mut hb);
            let (n, nl) = any_unix(&mut nb);
            let want = ref_find(content(h), content(n));
            kani::cover!(nl == 0, "empty needle");
            kani::cover!(hl == 0, "empty haystack");
            kani::cover!(nl > hl, "needle longer than haystack");
            kani::cover!(want.is_some() && nl >= 2 && want.unwrap() + nl == hl && hl > nl, "match at the very end");
            kani::cover!(want.is_none() && nl >= 2 && nl <= hl, "no match");
            let got = h.find(n);
            assert!(got == want, "find: first occurrence index or none");
        }
    };
}
// @ob C11 quick find_n4 fns=UnixStr::find,buf_find bound="haystack and needle: all byte strings of length 0..=4 over 1..=255" timeout=600
c11_find!(find_n4, 5, 7);
// @ob C11 quick find_n6 fns=UnixStr::find,buf_find bound="haystack and needle: all byte strings of length 0..=6 over 1..=255" timeout=2400
c11_find!(find_n6, 7, 9);

macro_rules! c11_find_buf {
    ($name:ident, $n:expr, $u:expr) => {
        #[kani::proof]
        #[kani::unwind($u)]
        fn $name() {
            let mut hb = [0u8; $n];
            let (h, hl) = any_unix(&mut hb);
            // needle: arbitrary bytes (NUL included) of symbolic length; buf_find uses checked indexing only
            let nl: usize = kani::any();
            kani::assume(nl < $n);
            let nb: [u8; $n] = kani::any();
            let nv = &nb[..nl];
            let want = ref_find(h.as_slice(), nv);
            kani::cover!(nl == 0, "empty needle");
            kani::cover!(want.is_some() && nl >= 2, "match");
            kani::cover!(want.is_none() && nl >= 2 && nl <= hl, "no match");
            let got = h.find_buf(nv);
            assert!(got == want, "find_buf: first occurrence index or none");
        }
    };
}
// @ob C11 quick find_buf_n4 fns=UnixStr::find_buf,buf_find bound="haystack length 0..=4, needle any bytes of length 0..=4" timeout=600
c11_find_buf!(find_buf_n4, 5, 7);
// @ob C11 quick find_buf_n6 fns=UnixStr::find_buf,buf_find bound="haystack length 0..=6, needle any bytes of length 0..=6" timeout=2400
c11_find_buf!(find_buf_n6, 7, 9);

macro_rules! c11_match_up_to {
    ($name:ident, $n:expr, $u:expr) => {
        #[kani::proof]
        #[kani::unwind($u)]
        fn $name() {
            let mut ab = [0u8; $n];
            let mut bb = [0u8; $n];
            let (a, al) = any_unix(&mut ab);
            let (b, bl) = any_unix(&mut bb);
            let got = a.match_up_to(b);
            let want = ref_common_prefix(content(a), content(b));
            kani::cover!(want == al && al == bl && al > 1, "equal strings");
            kani::cover!(want == al && bl > al, "self is a proper prefix");
            kani::cover!(want == bl && al > bl && bl > 0, "other is a proper prefix");
            kani::cover!(want == 0 && al > 0 && bl > 0, "differ at once");
            assert!(got == want, "match_up_to: common prefix length");
        }
    };
}
// @ob C11 quick match_up_to_n5 fns=UnixStr::match_up_to bound="both operands: all byte strings of length 0..=5" timeout=600
c11_match_up_to!(match_up_to_n5, 6, 8);
// @ob C11 quick match_up_to_n8 fns=UnixStr::match_up_to bound="both operands: all byte strings of length 0..=8" timeout=2400
c11_match_up_to!(match_up_to_n8, 9, 11);

macro_rules! c11_match_up_to_str {
    ($name:ident, $n:expr, $u:expr) => {
        #[kani::proof]
        #[kani::unwind($u)]
        fn $name() {
            let mut ab = [0u8; $n];
            let (a, al) = any_unix(&mut ab);
            // the &str operand is an exact-size heap object (dangling when empty): reading other[len] is an error
            let bl: usize = kani::any();
            kani::assume(bl < $n);
            let mut bv: Vec<u8> = Vec::with_capacity(bl);
            let mut i = 0;
            while i < bl {
                let c: u8 = kani::any();
                kani::assume(c < 0x80);
                bv.push(c);
                i += 1;
            }
            let s = unsafe { core::str::from_utf8_unchecked(&bv) };
            let want = ref_common_prefix(content(a), s.as_bytes());
            kani::cover!(bl == 0, "empty str operand");
            kani::cover!(want == bl && bl > 1 && al > bl, "str is a proper prefix");
            kani::cover!(want == al && bl > al && al > 0, "self is a proper prefix");
            let got = a.match_up_to_str(s);
            assert!(got == want, "match_up_to_str: common prefix length");
        }
    };
}
// @ob C11 quick match_up_to_str_n5 fns=UnixStr::match_up_to_str bound="self: byte strings 0..=5; other: ASCII str (NUL allowed) of length 0..=5 in an exact-size allocation" timeout=600
c11_match_up_to_str!(match_up_to_str_n5, 6, 8);
// @ob C11 quick match_up_to_str_n8 fns=UnixStr::match_up_to_str bound="as quick, lengths 0..=8" timeout=2400
c11_match_up_to_str!(match_up_to_str_n8, 9, 11);

macro_rules! c11_ends_with {
    ($name:ident, $n:expr, $u:expr) => {
        #[kani::proof]
        #[kani::unwind($u)]
        fn $name() {
            let mut ab = [0u8; $n];
            let mut bb = [0u8; $n];
            let (a, al) = any_unix(&mut ab);
            let (b, bl) = any_unix(&mut bb);
            let got = a.ends_with(b);
            let want = ref_ends_with(content(a), content(b));
            kani::cover!(want && bl == al && al > 1, "suffix equal to self");
            kani::cover!(want && bl == 0, "empty suffix");
            kani::cover!(want && bl > 1 && bl < al, "proper suffix");
            kani::cover!(!want && bl > 1 && bl < al, "not a suffix");
            kani::cover!(bl > al, "longer than self");
            assert!(got == want, "ends_with holds exactly for suffixes");
        }
    };
}
// @ob C11 quick ends_with_n5 fns=UnixStr::ends_with bound="both operands: all byte strings of length 0..=5" timeout=600
c11_ends_with!(ends_with_n5, 6, 8);
// @ob C11 quick ends_with_n8 fns=UnixStr::ends_with bound="both operands: all byte strings of length 0..=8" timeout=2400
c11_ends_with!(ends_with_n8, 9, 11);

macro_rules! c11_file_name {
    ($name:ident, $n:expr, $u:expr) => {
        #[kani::proof]
        #[kani::unwind($u)]
        fn $name() {
            let mut ab = [0u8; $n];
            let (a, al) = any_unix(&mut ab);
            let got = a.path_file_name();
            let c = content(a);
            // definition: split at the last separator; a path without separator or with nothing after the
            // last separator has no file name (the repository's documented behaviour for "/" and "")
            match ref_last_slash(c) {
                None => assert!(got.is_none(), "file name without any separator"),
                Some(i) => {
                    if i + 1 == c.len() {
                        kani::cover!(al > 1, "trailing separator");
                        assert!(got.is_none(), "nothing after the last separator");
                    } else {
                        kani::cover!(i > 0, "separator in the middle");
                        let g = got.expect("file name exists");
                        assert!(slices_eq(content(g), &c[i + 1..]), "file name = bytes after the last separator");
                        let gs = g.as_slice();
                        assert!(gs[gs.len() - 1] == 0, "file name is NUL-terminated");
                    }
                }
            }
        }
    };
}
// @ob C11 quick file_name_n5 fns=UnixStr::path_file_name bound="all byte strings of length 0..=5" timeout=600
c11_file_name!(file_name_n5, 6, 8);
// @ob C11 quick file_name_n8 fns=UnixStr::path_file_name bound="all byte strings of length 0..=8" timeout=2400
c11_file_name!(file_name_n8, 9, 11);

/// join definition: empty operand -> the other one; otherwise left minus one trailing '/', one '/', right minus one leading '/'.
fn ref_join(a: &[u8], b: &[u8]) -> Vec<u8> {
    let mut out = Vec::new();
    if a.is_empty() {
        out.extend_from_slice(b);
        return out;
    }
    if b.is_empty() {
        out.extend_from_slice(a);
        return out;
    }
    let a2 = if a[a.len() - 1] == b'/' { &a[..a.len() - 1] } else { a };
    let b2 = if b[0] == b'/' { &b[1..] } else { b };
    out.extend_from_slice(a2);
    out.push(b'/');
    out.extend_from_slice(b2);
    out
}

macro_rules! c11_join {
    ($name:ident, $n:expr, $u:expr) => {
        #[kani::proof]
        #[kani::unwind($u)]
        fn $name() {
            let mut ab = [0u8; $n];
            let mut bb = [0u8; $n];
            let (a, al) = any_unix(&mut ab);
            let (b, bl) = any_unix(&mut bb);
            let got = a.path_join(b);
            let want = ref_join(content(a), content(b));
            kani::cover!(al > 1 && bl > 1 && ab[al - 1] == b'/' && bb[0] == b'/', "separator on both sides");
            kani::cover!(al > 1 && bl > 1 && ab[al - 1] != b'/' && bb[0] != b'/', "separator on neither side");
            kani::cover!(al == 0 && bl > 0, "empty left");
            kani::cover!(bl == 0 && al > 0, "empty right");
            let g = got.as_slice();
            assert!(g.len() == want.len() + 1, "join length");
            assert!(slices_eq(&g[..g.len() - 1], &want), "join puts exactly one separator at the boundary");
            assert!(g[g.len() - 1] == 0, "join result is NUL-terminated");
            core::mem::forget(got);
            core::mem::forget(want);
        }
    };
}
// @ob C11 quick join_n3 fns=UnixStr::path_join bound="both operands: all byte strings of length 0..=3" timeout=900
c11_join!(join_n3, 4, 10);
// @ob C11 quick join_n5 fns=UnixStr::path_join bound="both operands: all byte strings of length 0..=5" timeout=2400
c11_join!(join_n5, 6, 14);

/// parent definition: split at the last separator. The root's child has parent "/"; a string without
/// separator, shorter than two bytes, or whose last separator is directly preceded by another one
/// ("treat any double slash as a path with no parent") has none. Note: a trailing separator IS the last
/// separator ("/a/b/" -> "/a/b"), which is what the code does; the doc comment's example shows "/a" for that
/// input but is never compiled or run, so it is not taken as the specification.
fn ref_parent(c: &[u8]) -> Option<&[u8]> {
    if c.len() < 2 {
        return None;
    }
    let i = ref_last_slash(c)?;
    if i == 0 {
        return Some(&c[..1]);
    }
    if c[i - 1] == b'/' {
        return None;
    }
    Some(&c[..i])
}

macro_rules! c11_parent {
    ($name:ident, $n:expr, $u:expr) => {
        #[kani::proof]
        #[kani::unwind($u)]
        fn $name() {
            let mut ab = [0u8; $n];
            let (a, al) = any_unix(&mut ab);
            let got = a.parent_path();
            let want = ref_parent(content(a));
            kani::cover!(want.is_some() && want.unwrap().len() > 1, "proper parent");
            kani::cover!(want.is_some() && want.unwrap().len() == 1 && al > 1, "parent is the root");
            kani::cover!(want.is_none() && al > 2, "no parent");
            kani::cover!(al > 2 && content(a)[al - 1] == b'/' && want.is_some(), "trailing separator is the split point");
            match (&got, want) {
                (None, None) => {}
                (Some(g), Some(w)) => {
                    let gs = g.as_slice();
                    assert!(gs.len() == w.len() + 1, "parent length (content + terminator)");
                    assert!(slices_eq(&gs[..gs.len() - 1], w), "parent = bytes before the last separator");
                    assert!(gs[gs.len() - 1] == 0, "parent is NUL-terminated");
                }
                _ => assert!(false, "parent exists exactly when the definition says so"),
            }
            core::mem::forget(got);
        }
    };
}
// @ob C11 quick parent_n5 fns=UnixStr::parent_path bound="all byte strings of length 0..=5" timeout=600
c11_parent!(parent_n5, 6, 8);
// @ob C11 quick parent_n8 fns=UnixStr::parent_path bound="all byte strings of length 0..=8" timeout=2400
c11_parent!(parent_n8, 9, 11);
