//! C10 — every UnixStr/UnixString produced by safe code is NUL-terminated exactly once;
//! unrepresentable inputs give Err, never a panic (Kani checks every panic/overflow/index on the way).
use crate::util::*;
use alloc::string::String;
use alloc::vec::Vec;
use rusl::string::unix_str::{UnixStr, UnixString};

/// position of the first NUL in `s`, or s.len()
fn first_nul(s: &[u8]) -> usize {
    let mut i = 0;
    while i < s.len() && s[i] != 0 {
        i += 1;
    }
    i
}

/// exactly one NUL and it is the last byte
fn well_terminated(s: &[u8]) -> bool {
    !s.is_empty() && first_nul(s) == s.len() - 1
}

fn any_bytes<const N: usize>(buf: &mut [u8; N]) -> &[u8] {
    *buf = kani::any();
    let len: usize = kani::any();
    kani::assume(len <= N);
    &buf[..len]
}

fn any_ascii<const N: usize>(buf: &mut [u8; N]) -> &str {
    *buf = kani::any();
    let len: usize = kani::any();
    kani::assume(len <= N);
    let mut i = 0;
    while i < N {
        kani::assume(buf[i] < 0x80);
        i += 1;
    }
    unsafe { core::str::from_utf8_unchecked(&buf[..len]) }
}

macro_rules! c10_owned_ctor {
    ($name:ident, $n:expr, $u:expr, $ctor:expr) => {
        #[kani::proof]
        #[kani::unwind($u)]
        fn $name() {
            let mut b = [0u8; $n];
            let s = any_bytes(&mut b);
            let fz = first_nul(s);
            kani::cover!(s.is_empty(), "empty input");
            kani::cover!(fz == s.len() && s.len() == $n, "NUL-free input of maximal length");
            kani::cover!(!s.is_empty() && fz == s.len() - 1, "already terminated input");
            kani::cover!(fz + 1 < s.len(), "interior NUL");
            let r: Result<UnixString, rusl::Error> = ($ctor)(s);
            match r {
                Ok(u) => {
                    let out = u.as_slice();
                    assert!(well_terminated(out), "result ends with its only NUL");
                    assert!(fz + 1 >= s.len(), "an input with an interior NUL must be rejected");
                    assert!(slices_eq(&out[..out.len() - 1], &s[..fz]), "content preserved");
                    core::mem::forget(u);
                }
                Err(_) => assert!(fz + 1 < s.len(), "a representable input must be accepted"),
            }
        }
    };
}
// @ob C10 quick string_try_from_bytes_n5 fns=UnixString::try_from_bytes bound="all byte strings (0..=255) of length 0..=5" timeout=600
c10_owned_ctor!(string_try_from_bytes_n5, 5, 8, |s: &[u8]| UnixString::try_from_bytes(s));
// @ob C10 quick string_try_from_vec_n5 fns=UnixString::try_from_vec bound="all byte vectors of length 0..=5" timeout=600
c10_owned_ctor!(string_try_from_vec_n5, 5, 8, |s: &[u8]| UnixString::try_from_vec(s.to_vec()));
// @ob C10 thorough string_try_from_bytes_n8 fns=UnixString::try_from_bytes bound="all byte strings of length 0..=8" timeout=2400
c10_owned_ctor!(string_try_from_bytes_n8, 8, 11, |s: &[u8]| UnixString::try_from_bytes(s));
// @ob C10 thorough string_try_from_vec_n8 fns=UnixString::try_from_vec bound="all byte vectors of length 0..=8" timeout=2400
c10_owned_ctor!(string_try_from_vec_n8, 8, 11, |s: &[u8]| UnixString::try_from_vec(s.to_vec()));

macro_rules! c10_owned_str_ctor {
    ($name:ident, $n:expr, $u:expr, $ctor:expr) => {
        #[kani::proof]
        #[kani::unwind($u)]
        fn $name() {
            let mut b = [0u8; $n];
            let st = any_ascii(&mut b);
            let s = st.as_bytes();
            let fz = first_nul(s);
            kani::cover!(s.is_empty(), "empty input");
            kani::cover!(!s.is_empty() && fz == s.len() - 1, "already terminated input");
            kani::cover!(fz + 1 < s.len(), "interior NUL");
            let r: Result<UnixString, rusl::Error> = ($ctor)(st);
            match r {
                Ok(u) => {
                    let out = u.as_slice();
                    assert!(well_terminated(out), "result ends with its only NUL");
                    assert!(fz + 1 >= s.len(), "an input with an interior NUL must be rejected");
                    assert!(slices_eq(&out[..out.len() - 1], &s[..fz]), "content preserved");
                    core::mem::forget(u);
                }
                Err(_) => assert!(fz + 1 < s.len(), "a representable input must be accepted"),
            }
        }
    };
}
// @ob C10 quick string_try_from_str_n5 fns=UnixString::try_from_str,UnixString::from_str bound="all ASCII strs (NUL included) of length 0..=5" timeout=600
c10_owned_str_ctor!(string_try_from_str_n5, 5, 8, |s: &str| <UnixString as core::str::FromStr>::from_str(s));
// @ob C10 quick string_try_from_string_n5 fns=UnixString::try_from_string bound="all ASCII Strings (NUL included) of length 0..=5" timeout=600
c10_owned_str_ctor!(string_try_from_string_n5, 5, 8, |s: &str| UnixString::try_from_string(String::from(s)));

macro_rules! c10_borrowed_ctor {
    ($name:ident, $n:expr, $u:expr) => {
        #[kani::proof]
        #[kani::unwind($u)]
        fn $name() {
            let mut b = [0u8; $n];
            let s = any_bytes(&mut b);
            let fz = first_nul(s);
            kani::cover!(s.is_empty(), "empty input");
            kani::cover!(fz == s.len() && !s.is_empty(), "unterminated input");
            kani::cover!(!s.is_empty() && fz == s.len() - 1, "terminated input");
            kani::cover!(fz + 1 < s.len(), "interior NUL");
            match UnixStr::try_from_bytes(s) {
                Ok(u) => {
                    assert!(well_terminated(s), "only a slice ending with its only NUL is a UnixStr");
                    assert!(u.as_slice().len() == s.len() && u.as_ptr() == s.as_ptr(), "borrowed view of the same bytes");
                }
                Err(_) => assert!(!well_terminated(s), "a well-terminated slice must be accepted"),
            }
        }
    };
}
// @ob C10 quick str_try_from_bytes_n6 fns=UnixStr::try_from_bytes,UnixStr::try_from_str bound="all byte strings of length 0..=6" timeout=600
c10_borrowed_ctor!(str_try_from_bytes_n6, 6, 9);
// @ob C10 thorough str_try_from_bytes_n10 fns=UnixStr::try_from_bytes,UnixStr::try_from_str bound="all byte strings of length 0..=10" timeout=2400
c10_borrowed_ctor!(str_try_from_bytes_n10, 10, 13);

// from_ptr: view of exactly strlen+1 bytes
// @ob C10 quick from_ptr_n6 fns=UnixStr::from_ptr,strlen bound="NUL-terminated strings of length 0..=6 at the END of an exact-size allocation" timeout=600
#[kani::proof]
#[kani::unwind(9)]
fn from_ptr_n6() {
    let len: usize = kani::any();
    kani::assume(len <= 6);
    let mut v: Vec<u8> = Vec::with_capacity(len + 1);
    let mut i = 0;
    while i < len {
        let c: u8 = kani::any();
        kani::assume(c != 0);
        v.push(c);
        i += 1;
    }
    v.push(0);
    kani::cover!(len == 0, "empty string");
    kani::cover!(len == 6, "maximal length");
    let u = unsafe { UnixStr::from_ptr(v.as_ptr()) };
    assert!(u.as_slice().len() == len + 1, "from_ptr spans the string and its terminator exactly");
    assert!(well_terminated(u.as_slice()), "terminated exactly once");
    core::mem::forget(v);
}

// From<&UnixStr> for UnixString, Deref/AsRef back
// @ob C10 quick from_unix_str_n5 fns=UnixString::from,UnixString::deref,UnixString::as_ref bound="all UnixStr of content length 0..=5" timeout=600
#[kani::proof]
#[kani::unwind(9)]
fn from_unix_str_n5() {
    let mut b = [0u8; 6];
    let (a, al) = any_unix(&mut b);
    kani::cover!(al == 0, "empty");
    kani::cover!(al == 5, "maximal");
    let o = UnixString::from(a);
    assert!(well_terminated(o.as_slice()), "owned copy is terminated exactly once");
    assert!(slices_eq(o.as_slice(), a.as_slice()), "owned copy has the same bytes");
    let back: &UnixStr = &o;
    assert!(slices_eq(back.as_slice(), a.as_slice()), "deref view has the same bytes");
    let back2: &UnixStr = o.as_ref();
    assert!(back2.as_slice().len() == al + 1, "as_ref view has the same length");
    core::mem::forget(o);
}

/// Stand-in for `alloc::fmt::format` in the path_join_fmt harness: returns the symbolic string the harness
/// prepared, i.e. "whatever text the formatter produced". Formatting itself is not the subject.
pub static mut FMT_OUT: Option<String> = None;
pub fn stub_format(_args: core::fmt::Arguments<'_>) -> String {
    unsafe { (*core::ptr::addr_of_mut!(FMT_OUT)).take().unwrap() }
}

// path operations produce terminated strings (their content is judged under C11)
macro_rules! c10_join_fmt {
    ($name:ident, $n:expr, $m:expr, $u:expr) => {
        #[kani::proof]
        #[kani::unwind($u)]
        #[kani::stub(alloc::fmt::format, stub_format)]
        fn $name() {
            let mut ab = [0u8; $n];
            let (a, al) = any_unix(&mut ab);
            let mut sb = [0u8; $m];
            let st = any_ascii(&mut sb);
            let s = st.as_bytes();
            let fz = first_nul(s);
            // operand classes: NUL-free, or NUL-free followed by one terminating NUL (the documented fast path)
            kani::assume(fz + 1 >= s.len());
            let sc = &s[..fz];
            kani::cover!(s.is_empty(), "empty format result");
            kani::cover!(al == 0 && !sc.is_empty(), "empty base");
            kani::cover!(fz + 1 == s.len(), "format result already terminated");
            kani::cover!(al > 0 && !sc.is_empty() && content(a)[al - 1] == b'/' && sc[0] == b'/', "separator on both sides");
            kani::cover!(al > 0 && !sc.is_empty() && content(a)[al - 1] != b'/' && sc[0] != b'/', "separator on neither side");
            unsafe { *core::ptr::addr_of_mut!(FMT_OUT) = Some(String::from(st)); }
            let got = a.path_join_fmt(format_args!("{}", st));
            let g = got.as_slice();
            assert!(well_terminated(g), "path_join_fmt result is terminated exactly once");
            // content: same definition as path_join
            let ac = content(a);
            let c = &g[..g.len() - 1];
            if ac.is_empty() {
                assert!(slices_eq(c, sc), "empty base: the formatted operand");
            } else if s.is_empty() {
                assert!(slices_eq(c, ac), "empty operand: the base");
            } else if !sc.is_empty() {
                let a2 = if ac[ac.len() - 1] == b'/' { &ac[..ac.len() - 1] } else { ac };
                let b2 = if sc[0] == b'/' { &sc[1..] } else { sc };
                assert!(c.len() == a2.len() + 1 + b2.len(), "exactly one separator at the boundary (length)");
                assert!(slices_eq(&c[..a2.len()], a2) && c[a2.len()] == b'/' && slices_eq(&c[a2.len() + 1..], b2),
                        "exactly one separator at the boundary (content)");
            }
            core::mem::forget(got);
        }
    };
}
// @ob C10 quick join_fmt_n2 fns=UnixStr::path_join_fmt bound="base 0..=2 bytes; formatter output: any ASCII text of 0..=2 bytes, NUL-free or NUL-terminated" stubs="alloc::fmt::format returns the symbolic text" timeout=900
c10_join_fmt!(join_fmt_n2, 3, 2, 6);
// @ob C10 thorough join_fmt_n3 fns=UnixStr::path_join_fmt bound="base 0..=3 bytes; formatter output: any ASCII text of 0..=3 bytes, NUL-free or NUL-terminated" stubs="alloc::fmt::format returns the symbolic text" timeout=1800
c10_join_fmt!(join_fmt_n3, 4, 3, 8);
// @ob C10 thorough join_fmt_n4 fns=UnixStr::path_join_fmt bound="base 0..=4 bytes; formatter output: any ASCII text of 0..=4 bytes, NUL-free or NUL-terminated" stubs="alloc::fmt::format returns the symbolic text" timeout=2400
c10_join_fmt!(join_fmt_n4, 5, 4, 10);

// from_str_checked rejects (panics, by documentation: const-context validation) exactly the ill-terminated inputs
// @ob C10 quick from_str_checked_n5 fns=UnixStr::from_str_checked,const_null_term_validate bound="all ASCII strs of length 0..=5; acceptance only (its documented compile-time panic is the rejection)" timeout=600
#[kani::proof]
#[kani::unwind(8)]
fn from_str_checked_n5() {
    let mut sb = [0u8; 5];
    let st = any_ascii(&mut sb);
    let ok = well_terminated(st.as_bytes());
    kani::cover!(ok && st.len() == 5, "accepted, maximal");
    kani::cover!(ok && st.len() == 1, "accepted, empty content");
    kani::assume(ok);
    let u = UnixStr::from_str_checked(st);
    assert!(u.as_slice().len() == st.len(), "same bytes");
}
// @ob C10 quick from_str_checked_rejects_n5 fns=UnixStr::from_str_checked,const_null_term_validate bound="all ill-terminated ASCII strs of length 0..=5 are rejected (its documented panic is the rejection)" timeout=600 allow="Tried to instantiate UnixStr from an invalid" nocover=1
#[kani::proof]
#[kani::unwind(8)]
fn from_str_checked_rejects_n5() {
    let mut sb = [0u8; 5];
    let st = any_ascii(&mut sb);
    kani::assume(!well_terminated(st.as_bytes()));
    let _ = UnixStr::from_str_checked(st);
    assert!(false, "from_str_checked accepted an ill-terminated input");
}
