//! C17 — io_uring rings: exactly-once, in-order hand-over both ways, across index wrap.
//!
//! The ring is built by the `verif-hooks` constructor over harness-owned memory.  The start state is an
//! ARBITRARY valid ring state (symbolic 32-bit bases, symbolic numbers of pending/unflushed submissions and
//! pending completions), so the L-step run is an induction step, not a prefix from zero.  Entries carry ghost
//! 64-bit sequence stamps in `user_data`.
use core::ptr::NonNull;
use core::sync::atomic::{AtomicU32, Ordering};
use rusl::platform::{Fd, IoUring, IoUringCompletionQueueEntry, IoUringParamFlags, IoUringSubmissionQueueEntry};


struct World<const CAP: usize> {
    n: u32,
    sq_khead: AtomicU32,
    sq_ktail: AtomicU32,
    sq_kflags: AtomicU32,
    sq_kdropped: AtomicU32,
    sq_array: [AtomicU32; CAP],
    sqes: [IoUringSubmissionQueueEntry; CAP],
    cq_khead: AtomicU32,
    cq_ktail: AtomicU32,
    cq_overflow: AtomicU32,
    cqes: [IoUringCompletionQueueEntry; CAP],
    // ghost
    filled: u64,
    consumed: u64,
    posted: u64,
    reaped: u64,
    pending_slots: u32,
}

fn nn<T>(r: &T) -> NonNull<T> {
    NonNull::from(r)
}

impl<const CAP: usize> World<CAP> {
    /// kernel side: consume up to j published submissions, in order
    fn kernel_consume(&mut self, j: u32) {
        let mask = self.n - 1;
        let mut i = 0;
        while i < j {
            let h = self.sq_khead.load(Ordering::Relaxed);
            let t = self.sq_ktail.load(Ordering::Acquire);
            if h == t {
                break;
            }
            let slot = self.sq_array[(h & mask) as usize].load(Ordering::Relaxed);
            assert!(slot < self.n, "index array entry inside the ring");
            let stamp = self.sqes[slot as usize].0.user_data;
            assert!(stamp == self.consumed, "the kernel consumes every flushed entry exactly once and in order");
            self.pending_slots &= !(1u32 << slot);
            self.consumed += 1;
            self.sq_khead.store(h.wrapping_add(1), Ordering::Release);
            i += 1;
        }
    }
    /// kernel side: post up to j completions while the completion ring has a free slot
    fn kernel_post(&mut self, j: u32) {
        let mask = self.n - 1;
        let mut i = 0;
        while i < j {
            let h = self.cq_khead.load(Ordering::Acquire);
            let t = self.cq_ktail.load(Ordering::Relaxed);
            if t.wrapping_sub(h) >= self.n {
                break; // full
            }
            self.cqes[(t & mask) as usize].0.user_data = self.posted;
            self.posted += 1;
            self.cq_ktail.store(t.wrapping_add(1), Ordering::Release);
            i += 1;
        }
    }
}

fn run<const CAP: usize>(steps: usize, sqpoll: bool, kmax: u32, hazard_only: bool) {
    let n: u32 = kani::any();
    kani::assume((n == 1 || n == 2 || n == 4 || n == 8) && n as usize <= CAP);
    let mask = n - 1;
    let sbase: u32 = kani::any();
    let cbase: u32 = kani::any();
    let a: u32 = kani::any(); // flushed, not yet consumed
    let b: u32 = kani::any(); // filled, not yet flushed
    let c: u32 = kani::any(); // posted, not yet reaped
    kani::assume(a <= n && b <= n - a && c <= n);
    const Z: AtomicU32 = AtomicU32::new(0);
    let mut w: World<CAP> = World {
        n,
        sq_khead: AtomicU32::new(sbase),
        sq_ktail: AtomicU32::new(sbase.wrapping_add(a)),
        sq_kflags: AtomicU32::new(0),
        sq_kdropped: AtomicU32::new(0),
        sq_array: [Z; CAP],
        sqes: unsafe { core::mem::zeroed() },
        cq_khead: AtomicU32::new(cbase),
        cq_ktail: AtomicU32::new(cbase.wrapping_add(c)),
        cq_overflow: AtomicU32::new(0),
        cqes: unsafe { core::mem::zeroed() },
        filled: (a + b) as u64,
        consumed: 0,
        posted: c as u64,
        reaped: 0,
        pending_slots: 0,
    };
    let mut i = 0;
    while i < CAP as u32 {
        w.sq_array[i as usize].store(i, Ordering::Relaxed); // identity mapping, as setup_io_uring writes it
        if i < a + b {
            let slot = (sbase.wrapping_add(i) & mask) as usize;
            w.sqes[slot].0.user_data = i as u64;
            w.pending_slots |= 1 << slot;
        }
        if i < c {
            w.cqes[(cbase.wrapping_add(i) & mask) as usize].0.user_data = i as u64;
        }
        i += 1;
    }
    let flags = if sqpoll { IoUringParamFlags::IORING_SETUP_SQPOLL } else { IoUringParamFlags::empty() };
    let mut ring = unsafe {
        IoUring::verif_from_raw_parts(
            Fd::try_new(3).unwrap(),
            flags,
            [nn(&w.sq_khead), nn(&w.sq_ktail), nn(&w.sq_kflags), nn(&w.sq_kdropped), nn(&w.sq_array[0])],
            sbase.wrapping_add(a),
            sbase.wrapping_add(a).wrapping_add(b),
            n,
            nn(&w.sqes[0]),
            [nn(&w.cq_khead), nn(&w.cq_ktail), nn(&w.cq_overflow)],
            n,
            nn(&w.cqes[0]),
        )
    };
    let sq_wraps = sbase > u32::MAX - 4;
    let cq_wraps = cbase > u32::MAX - 4;
    let mut got_slot_after_wrap = false;
    let mut reaped_after_wrap = false;
    let mut reap_when_full = false;
    let mut s = 0;
    while s < steps {
        let choice: u8 = kani::any();
        kani::assume(choice < 5);
        if hazard_only {
            kani::assume(choice == 2);
        }
        match choice {
            0 => {
                let before_tail_wrapped = sq_wraps;
                match ring.get_next_sqe_slot() {
                    Some(p) => {
                        let off = (p as usize - &w.sqes[0] as *const _ as usize) / core::mem::size_of::<IoUringSubmissionQueueEntry>();
                        assert!(off < n as usize, "slot inside the ring");
                        assert!(w.pending_slots & (1 << off) == 0, "no slot is handed out again before the kernel consumed it");
                        assert!(w.filled - w.consumed < n as u64, "a slot is handed out only while the ring has room");
                        unsafe { (*p).0.user_data = w.filled };
                        w.pending_slots |= 1 << off;
                        w.filled += 1;
                        if before_tail_wrapped {
                            got_slot_after_wrap = true;
                        }
                    }
                    None => assert!(w.filled - w.consumed == n as u64, "a slot is refused only when the ring is full"),
                }
            }
            1 => {
                let r = ring.flush_submission_queue();
                assert!(r as u64 == w.filled - w.consumed, "flush reports the entries the kernel has yet to consume");
                let t = w.sq_ktail.load(Ordering::Relaxed);
                assert!(t.wrapping_sub(w.sq_khead.load(Ordering::Relaxed)) as u64 == w.filled - w.consumed,
                        "after a flush every filled entry is published");
            }
            2 => {
                let full_before = w.posted - w.reaped == n as u64;
                let r = ring.get_next_cqe().map(|c| c as *const IoUringCompletionQueueEntry);
                // the kernel may run right after the call returns and before the caller looks at the entry
                let j: u32 = kani::any();
                kani::assume(j <= 1);
                // KNOWN FINDING C17-cqe-slot-released-early: get_next_cqe advances the ring head before the caller
                // has read the entry it returns; with a full completion ring the kernel's next post lands in that
                // very slot. The main harnesses exclude exactly this region, the *_known harness contains only it.
                let hazard = full_before && j == 1 && r.is_some();
                kani::assume(hazard == hazard_only);
                w.kernel_post(j);
                match r {
                    Some(c) => {
                        let stamp = unsafe { (*c).0.user_data };
                        assert!(w.posted > w.reaped, "a completion is returned only if one is pending");
                        assert!(stamp == w.reaped, "completions are returned exactly once, in order, with the content the kernel wrote");
                        w.reaped += 1;
                        if cq_wraps {
                            reaped_after_wrap = true;
                        }
                        if full_before && j == 1 {
                            reap_when_full = true;
                        }
                    }
                    None => assert!(w.posted - j as u64 == w.reaped || w.posted == w.reaped,
                                    "None only when nothing was pending at the call"),
                }
            }
            3 => {
                let j: u32 = kani::any();
                kani::assume(j >= 1 && j <= n && j <= kmax);
                w.kernel_consume(j);
            }
            _ => {
                let j: u32 = kani::any();
                kani::assume(j >= 1 && j <= n && j <= kmax);
                w.kernel_post(j);
            }
        }
        s += 1;
    }
    if !hazard_only {
        kani::cover!(got_slot_after_wrap && n == 4, "slot handed out with the tail next to u32::MAX");
        kani::cover!(reaped_after_wrap, "completion reaped with the counters next to u32::MAX");
        kani::cover!(w.consumed >= 2 && n == 2, "kernel consumed two entries of a 2-entry ring");
        kani::cover!(w.reaped >= 1 && c == n, "reap from a full completion ring");
    }

    core::mem::forget(ring);
}

// @ob C17 quick ring4_l4 fns=IoUring::get_next_sqe_slot,IoUring::flush_submission_queue,IoUring::get_next_cqe,UringSubmissionQueue::*,UringCompletionQueue::* bound="ring sizes 1,2,4; arbitrary valid start state (any 32-bit head/tail bases incl. u32::MAX-k, any pending counts); 4 steps of {get slot, flush, reap(+kernel post), kernel consume j<=2, kernel post j<=2}; no SQPOLL" timeout=1500
#[kani::proof]
#[kani::unwind(6)]
fn ring4_l4() {
    run::<4>(4, false, 2, false);
}
// @ob C17 quick ring4_l3_sqpoll fns=IoUring::get_next_sqe_slot,IoUring::flush_submission_queue,IoUring::get_next_cqe bound="as ring4_l4 with IORING_SETUP_SQPOLL (acquire/release paths), 3 steps" timeout=1500
#[kani::proof]
#[kani::unwind(6)]
fn ring4_l3_sqpoll() {
    run::<4>(3, true, 2, false);
}
// (ring size 8: 5 steps and 4 steps both gave no verdict in 3400 s; no obligation registered)
// @ob C17 thorough ring4_l6 fns=IoUring::get_next_sqe_slot,IoUring::flush_submission_queue,IoUring::get_next_cqe bound="ring sizes 1,2,4; 6 steps; kernel batches j<=4" timeout=3400 nocover=1
#[kani::proof]
#[kani::unwind(8)]
fn ring4_l6() {
    run::<4>(6, false, 4, false);
}

// @ob C17 quick ring4_cqe_slot_known fns=IoUring::get_next_cqe bound="the excluded region only: one reap from a FULL completion ring (sizes 1,2,4, any counters) with the kernel posting one completion between the call's return and the caller's read" timeout=900 known=C17-cqe-slot-released-early nocover=1
#[kani::proof]
#[kani::unwind(6)]
fn ring4_cqe_slot_known() {
    run::<4>(1, false, 1, true);
}
