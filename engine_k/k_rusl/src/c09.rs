//! C09 — every raw system-call wrapper returns Err exactly when the kernel's return value lies in
//! [-4095, -1], with that errno as a positive code, and otherwise success carrying the kernel's value;
//! exactly one call per invocation (dup's EBUSY retry excepted).
//!
//! The kernel is in raw mode: the value returned by the `syscall` instruction is a free 64-bit variable.
use core::num::NonZeroUsize;
use rusl::error::Errno;
use rusl::platform::*;
use rusl::string::unix_str::UnixStr;
use rusl::Error;
use sc::vk::{is_err, ks};

static PB: [u8; 2] = *b"p\0";
/// a path operand built at run time (Kani 0.68 cannot encode `const X: &UnixStr` fat-pointer constants)
fn p() -> &'static UnixStr {
    unsafe { UnixStr::from_bytes_unchecked(&PB) }
}

fn begin() {
    let k = ks();
    k.model = false;
    k.retry_rule = true;
    k.max_calls = 3;
}
fn fd(n: i32) -> Fd {
    Fd::try_new(n).unwrap()
}
fn anyfd() -> Fd {
    let n: i32 = kani::any();
    kani::assume(n >= 0);
    Fd::try_new(n).unwrap()
}
/// the decisive kernel return value (last call) and the number of calls
fn ret() -> usize {
    let k = ks();
    assert!(k.calls >= 1, "the wrapper issued its system call");
    k.log[k.calls - 1].ret
}
fn single_call() {
    assert!(ks().calls == 1, "exactly one system call per invocation");
}
fn expect_errno(r: usize) -> i32 {
    // r in [-4095,-1]  ->  errno = -r
    (0usize.wrapping_sub(r)) as i32
}
fn covers(r: usize) {
    kani::cover!(is_err(r), "kernel returned an errno");
    kani::cover!(r == 0usize.wrapping_sub(4095), "errno 4095 (boundary)");
    kani::cover!(r == 0usize.wrapping_sub(4096), "-4096 is a success value (boundary)");
    kani::cover!(r == 16, "success value 16 (EBUSY-sized)");
    kani::cover!(r == 0, "success value 0");
}
fn check_err<T>(res: &Result<T, Error>, r: usize) {
    if is_err(r) {
        match res {
            Err(e) => {
                assert!(e.code == Some(Errno::new(expect_errno(r))), "errno is the kernel's, as a positive code");
                assert!(expect_errno(r) >= 1 && expect_errno(r) <= 4095);
            }
            Ok(_) => assert!(false, "a kernel error was reported as success"),
        }
    }
}

/// wrappers returning Result<()>
macro_rules! c09_unit {
    ($name:ident, $call:expr) => {
        #[kani::proof]
        #[kani::unwind(4)]
        fn $name() {
            begin();
            let res: Result<(), Error> = $call;
            let r = ret();
            single_call();
            covers(r);
            check_err(&res, r);
            if !is_err(r) {
                assert!(res.is_ok(), "a success value was reported as an error");
            }
        }
    };
}
/// wrappers returning Result<usize-like> carrying the register value
macro_rules! c09_val {
    ($name:ident, $t:ty, $call:expr) => {
        #[kani::proof]
        #[kani::unwind(4)]
        fn $name() {
            begin();
            let res: Result<$t, Error> = $call;
            let r = ret();
            single_call();
            covers(r);
            check_err(&res, r);
            if !is_err(r) {
                match res {
                    Ok(v) => assert!(v == r as $t, "success carries the kernel's value unchanged"),
                    Err(_) => assert!(false, "a success value was reported as an error"),
                }
            }
        }
    };
}
/// wrappers returning Result<Fd>: kernel contract for these calls is a value in 0..=i32::MAX or an errno
macro_rules! c09_fd {
    ($name:ident, $call:expr) => {
        #[kani::proof]
        #[kani::unwind(4)]
        fn $name() {
            begin();
            let res: Result<Fd, Error> = $call;
            let r = ret();
            single_call();
            covers(r);
            check_err(&res, r);
            if !is_err(r) && r <= i32::MAX as usize {
                match res {
                    Ok(v) => assert!(v.value() as usize == r, "success carries the descriptor unchanged"),
                    Err(_) => assert!(false, "a success value was reported as an error"),
                }
            }
        }
    };
}
/// wrappers whose Ok payload is a structure filled through a pointer: only Ok/Err and errno are judged
macro_rules! c09_any {
    ($name:ident, $t:ty, $call:expr) => {
        #[kani::proof]
        #[kani::unwind(4)]
        fn $name() {
            begin();
            let res: Result<$t, Error> = $call;
            let r = ret();
            single_call();
            covers(r);
            check_err(&res, r);
            if !is_err(r) {
                assert!(res.is_ok(), "a success value was reported as an error");
            }
            core::mem::forget(res);
        }
    };
}

// ---- unistd
// @ob C09 quick w_close fns=rusl::unistd::close bound="kernel return value: any u64" timeout=300
c09_unit!(w_close, rusl::unistd::close(anyfd()));
// @ob C09 quick w_chdir fns=rusl::unistd::chdir bound="kernel return value: any u64" timeout=300
c09_unit!(w_chdir, rusl::unistd::chdir(p()));
// @ob C09 quick w_read fns=rusl::unistd::read bound="kernel return value: any u64" timeout=300
c09_val!(w_read, usize, { let mut b = [0u8; 8]; rusl::unistd::read(anyfd(), &mut b) });
// @ob C09 quick w_readv fns=rusl::unistd::readv bound="kernel return value: any u64" timeout=300
c09_val!(w_readv, usize, { let mut b = [0u8; 8]; let mut io = [IoSliceMut::new(&mut b)]; rusl::unistd::readv(anyfd(), &mut io) });
// @ob C09 quick w_write fns=rusl::unistd::write bound="kernel return value: any u64" timeout=300
c09_val!(w_write, usize, rusl::unistd::write(anyfd(), &[1u8, 2, 3]));
// @ob C09 quick w_writev fns=rusl::unistd::writev bound="kernel return value: any u64" timeout=300
c09_val!(w_writev, usize, { let b = [0u8; 8]; let io = [IoSlice::new(&b)]; rusl::unistd::writev(anyfd(), &io) });
// @ob C09 quick w_open fns=rusl::unistd::open,rusl::unistd::open_mode,rusl::unistd::open_raw bound="kernel return value: any u64" timeout=300
c09_fd!(w_open, rusl::unistd::open(p(), OpenFlags::O_RDONLY));
// @ob C09 quick w_open_mode fns=rusl::unistd::open_mode bound="kernel return value: any u64" timeout=300
c09_fd!(w_open_mode, rusl::unistd::open_mode(p(), OpenFlags::O_CREAT, Mode::empty()));
// @ob C09 quick w_open_raw fns=rusl::unistd::open_raw bound="kernel return value: any u64" timeout=300
c09_fd!(w_open_raw, unsafe { rusl::unistd::open_raw(p().as_ptr() as usize, OpenFlags::O_RDONLY) });
// @ob C09 quick w_open_at fns=rusl::unistd::open_at,rusl::unistd::open_at_mode bound="kernel return value: any u64" timeout=300
c09_fd!(w_open_at, rusl::unistd::open_at(anyfd(), p(), OpenFlags::O_RDONLY));
// @ob C09 quick w_open_at_mode fns=rusl::unistd::open_at_mode bound="kernel return value: any u64" timeout=300
c09_fd!(w_open_at_mode, rusl::unistd::open_at_mode(anyfd(), p(), OpenFlags::O_RDONLY, Mode::empty()));
// @ob C09 quick w_lseek fns=rusl::unistd::lseek bound="kernel return value: any u64" timeout=300
c09_val!(w_lseek, i64, rusl::unistd::lseek(anyfd(), kani::any(), rusl::unistd::Whence::SET));
// @ob C09 quick w_fcntl_get fns=rusl::unistd::fcntl_get_file_status bound="kernel return value: any u64" timeout=300
c09_any!(w_fcntl_get, OpenFlags, rusl::unistd::fcntl_get_file_status(anyfd()));
// @ob C09 quick w_fcntl_set fns=rusl::unistd::fcntl_set_file_status bound="kernel return value: any u64" timeout=300
c09_unit!(w_fcntl_set, rusl::unistd::fcntl_set_file_status(anyfd(), OpenFlags::O_NONBLOCK));
// @ob C09 quick w_mkdir fns=rusl::unistd::mkdir,rusl::unistd::mkdir_at bound="kernel return value: any u64" timeout=300
c09_unit!(w_mkdir, rusl::unistd::mkdir(p(), Mode::empty()));
// @ob C09 quick w_mkdir_at fns=rusl::unistd::mkdir_at bound="kernel return value: any u64" timeout=300
c09_unit!(w_mkdir_at, rusl::unistd::mkdir_at(anyfd(), p(), Mode::empty()));
// @ob C09 quick w_rename fns=rusl::unistd::rename,rusl::unistd::rename_flags,rusl::unistd::rename_at,rusl::unistd::rename_at2 bound="kernel return value: any u64" timeout=300
c09_unit!(w_rename, rusl::unistd::rename(p(), p()));
// @ob C09 quick w_rename_at2 fns=rusl::unistd::rename_at2 bound="kernel return value: any u64" timeout=300
c09_unit!(w_rename_at2, rusl::unistd::rename_at2(anyfd(), p(), anyfd(), p(), RenameFlags::empty()));
// @ob C09 quick w_unlink fns=rusl::unistd::unlink,rusl::unistd::unlink_flags,rusl::unistd::unlink_at bound="kernel return value: any u64" timeout=300
c09_unit!(w_unlink, rusl::unistd::unlink(p()));
// @ob C09 quick w_unlink_at fns=rusl::unistd::unlink_at bound="kernel return value: any u64" timeout=300
c09_unit!(w_unlink_at, rusl::unistd::unlink_at(anyfd(), p(), rusl::unistd::UnlinkFlags::at_removedir()));
// @ob C09 quick w_rmdir fns=rusl::unistd::rmdir bound="kernel return value: any u64" timeout=300
c09_unit!(w_rmdir, rusl::unistd::rmdir(anyfd()));
// @ob C09 quick w_stat fns=rusl::unistd::stat,rusl::unistd::statat bound="kernel return value: any u64" timeout=300
c09_any!(w_stat, Stat, rusl::unistd::stat(p()));
// (rusl::unistd::stat_fd passes the constant `UnixStr::EMPTY`; Kani 0.68 cannot encode a constant fat pointer to
//  an unsized newtype, so stat_fd is listed as not covered; it shares do_statat with stat/statat, which are.)
// @ob C09 quick w_get_dents fns=rusl::unistd::get_dents bound="kernel return value: any u64" timeout=300
c09_val!(w_get_dents, usize, { let mut b = [0u8; 32]; rusl::unistd::get_dents(anyfd(), &mut b) });
// @ob C09 quick w_copy_file_range fns=rusl::unistd::copy_file_range bound="kernel return value: any u64" timeout=300
c09_val!(w_copy_file_range, usize, rusl::unistd::copy_file_range(anyfd(), 0, anyfd(), 0, kani::any()));
// @ob C09 quick w_pipe2 fns=rusl::unistd::pipe2,rusl::unistd::pipe bound="kernel return value: any u64; descriptors written by the kernel: any two i32 >= 0" timeout=300
#[kani::proof]
#[kani::unwind(4)]
fn w_pipe2() {
    begin();
    let res = rusl::unistd::pipe2(OpenFlags::O_CLOEXEC);
    let r = ret();
    single_call();
    covers(r);
    check_err(&res, r);
    // in raw mode the kernel did not fill the array: the wrapper sees its own initial [-1,-1] and must not
    // hand out negative descriptors as success
    if let Ok(p) = res {
        assert!(!is_err(r));
        assert!(p.in_pipe.value() >= 0 && p.out_pipe.value() >= 0);
    }
}
// @ob C09 quick w_dup3 fns=rusl::unistd::dup3,rusl::unistd::dup2 bound="kernel return values of up to 2 successive calls: any u64 each" timeout=300
#[kani::proof]
#[kani::unwind(5)]
fn w_dup3() {
    begin();
    ks().raw_contract = 2; // dup3 returns the new descriptor (0..=i32::MAX) or an errno
    let res = rusl::unistd::dup3(anyfd(), anyfd(), kani::any());
    let k = ks();
    let r = ret();
    kani::cover!(is_err(r), "kernel returned an errno");
    kani::cover!(r == 0, "success value 0");
    kani::cover!(r == i32::MAX as usize, "largest descriptor");
    kani::cover!(k.calls == 2, "retried once after -EBUSY");
    kani::cover!(k.calls == 1 && r == 16, "new descriptor 16 returned as success value");
    kani::cover!(k.calls == 3, "retried twice");
    assert!(r != 0usize.wrapping_sub(16), "the decisive result is not -EBUSY");
    check_err(&res, r);
    if !is_err(r) {
        assert!(res.is_ok(), "a success value (such as descriptor 16) was reported as an error");
    }
}
// @ob C09 quick w_setuid fns=rusl::unistd::setuid bound="kernel return value: any u64" timeout=300
c09_unit!(w_setuid, rusl::unistd::setuid(kani::any()));
// @ob C09 quick w_setgid fns=rusl::unistd::setgid bound="kernel return value: any u64" timeout=300
c09_unit!(w_setgid, rusl::unistd::setgid(kani::any()));
// @ob C09 quick w_setpgid fns=rusl::unistd::setpgid bound="kernel return value: any u64" timeout=300
c09_unit!(w_setpgid, rusl::unistd::setpgid(kani::any(), kani::any()));
// @ob C09 quick w_setsid fns=rusl::unistd::setsid bound="kernel return value: any u64" timeout=300
c09_unit!(w_setsid, rusl::unistd::setsid());
// @ob C09 quick w_get_uid fns=rusl::unistd::get_uid bound="kernel return value: any u64" timeout=300
c09_val!(w_get_uid, u32, rusl::unistd::get_uid());
// @ob C09 quick w_unshare fns=rusl::unistd::unshare bound="kernel return value: any u64" timeout=300
c09_unit!(w_unshare, rusl::unistd::unshare(CloneFlags::empty()));
// @ob C09 quick w_swapon fns=rusl::unistd::swapon bound="kernel return value: any u64" timeout=300
c09_unit!(w_swapon, rusl::unistd::swapon(p(), 0));
// @ob C09 quick w_unmount fns=rusl::unistd::unmount bound="kernel return value: any u64" timeout=300
c09_unit!(w_unmount, rusl::unistd::unmount(p()));
// @ob C09 quick w_mount fns=rusl::unistd::mount bound="kernel return value: any u64; data Some/None" timeout=300
c09_unit!(w_mount, rusl::unistd::mount(p(), p(), FilesystemType::EXT4, Mountflags::empty(), if kani::any() { Some(p()) } else { None }));
// @ob C09 quick w_mmap fns=rusl::unistd::mmap bound="kernel return value: any u64" timeout=300
c09_val!(w_mmap, usize, unsafe { rusl::unistd::mmap(None, NonZeroUsize::new(4096).unwrap(), MemoryProtection::PROT_READ, MapRequiredFlag::MapPrivate, MapAdditionalFlags::MAP_ANONYMOUS, None, 0) });
// @ob C09 quick w_munmap fns=rusl::unistd::munmap bound="kernel return value: any u64" timeout=300
c09_unit!(w_munmap, unsafe { rusl::unistd::munmap(kani::any(), NonZeroUsize::new(4096).unwrap()) });
// @ob C09 quick w_uname fns=rusl::unistd::uname bound="kernel return value: any u64" timeout=300
c09_any!(w_uname, UtsName, rusl::unistd::uname());
// @ob C09 quick w_ioctl fns=rusl::ioctl::ioctl bound="kernel return value: any u64" timeout=300
c09_val!(w_ioctl, usize, unsafe { rusl::ioctl::ioctl(anyfd(), kani::any(), kani::any()) });

// ---- process
// @ob C09 quick w_fork fns=rusl::process::fork bound="kernel return value: any u64 (success values: pid_t range)" timeout=300
#[kani::proof]
#[kani::unwind(4)]
fn w_fork() {
    begin();
    let res = unsafe { rusl::process::fork() };
    let r = ret();
    single_call();
    covers(r);
    check_err(&res, r);
    if !is_err(r) && r <= i32::MAX as usize {
        assert!(res.is_ok() && res.unwrap() as usize == r, "pid carried unchanged (0 = child)");
    }
}
// @ob C09 quick w_clone fns=rusl::process::clone bound="kernel return value: any u64" timeout=300
#[kani::proof]
#[kani::unwind(4)]
fn w_clone() {
    begin();
    let args = CloneArgs::new(CloneFlags::empty());
    let res = unsafe { rusl::process::clone(&args) };
    let r = ret();
    single_call();
    covers(r);
    check_err(&res, r);
    if !is_err(r) && r <= i32::MAX as usize {
        assert!(res.is_ok() && res.unwrap() as usize == r);
    }
}
// @ob C09 quick w_wait_pid fns=rusl::process::wait_pid bound="kernel return value: any u64" timeout=300
#[kani::proof]
#[kani::unwind(4)]
fn w_wait_pid() {
    begin();
    let res = rusl::process::wait_pid(kani::any(), WaitPidFlags::empty());
    let r = ret();
    single_call();
    covers(r);
    check_err(&res, r);
    if !is_err(r) && r <= i32::MAX as usize {
        assert!(res.is_ok() && res.unwrap().pid as usize == r);
    }
}
// @ob C09 quick w_execve fns=rusl::process::execve bound="kernel return value: any errno (execve returns only on failure)" timeout=300
#[kani::proof]
#[kani::unwind(4)]
fn w_execve() {
    begin();
    ks().raw_contract = 1; // the kernel's contract: execve only returns with an error
    let res = unsafe { rusl::process::execve(p(), core::ptr::null(), core::ptr::null()) };
    let r = ret();
    single_call();
    kani::cover!(r == 0usize.wrapping_sub(2), "ENOENT");
    check_err(&res, r);
}
// @ob C09 quick w_get_pid fns=rusl::process::get_pid bound="kernel return value: any pid" timeout=300 nocover=1
#[kani::proof]
fn w_get_pid() {
    begin();
    let p = rusl::process::get_pid();
    let r = ret();
    single_call();
    if r <= i32::MAX as usize {
        assert!(p as usize == r);
    }
}

// ---- network
// @ob C09 quick w_socket fns=rusl::network::socket bound="kernel return value: any u64" timeout=300
c09_fd!(w_socket, rusl::network::socket(AddressFamily::AF_UNIX, SocketOptions::new(SocketType::SOCK_STREAM, SocketFlags::empty()), 0));
// @ob C09 quick w_listen fns=rusl::network::listen bound="kernel return value: any u64" timeout=300
c09_unit!(w_listen, rusl::network::listen(anyfd(), NonNegativeI32::MAX));
// @ob C09 quick w_bind_inet fns=rusl::network::bind_inet bound="kernel return value: any u64" timeout=300
c09_unit!(w_bind_inet, rusl::network::bind_inet(anyfd(), &SocketAddressInet::new([127, 0, 0, 1], 80)));
// @ob C09 quick w_connect_inet fns=rusl::network::connect_inet bound="kernel return value: any u64" timeout=300
c09_unit!(w_connect_inet, rusl::network::connect_inet(anyfd(), &SocketAddressInet::new([127, 0, 0, 1], 80)));
// @ob C09 quick w_bind_unix fns=rusl::network::bind_unix bound="kernel return value: any u64" timeout=300
c09_unit!(w_bind_unix, { let a = SocketAddressUnix::try_from_unix(p()).unwrap(); rusl::network::bind_unix(anyfd(), &a) });
// @ob C09 quick w_connect_unix fns=rusl::network::connect_unix bound="kernel return value: any u64" timeout=300
c09_unit!(w_connect_unix, { let a = SocketAddressUnix::try_from_unix(p()).unwrap(); rusl::network::connect_unix(anyfd(), &a) });
// @ob C09 quick w_accept_unix fns=rusl::network::accept_unix bound="kernel return value: any u64" timeout=300
#[kani::proof]
#[kani::unwind(4)]
fn w_accept_unix() {
    begin();
    let res = rusl::network::accept_unix(anyfd(), SocketFlags::SOCK_CLOEXEC);
    let r = ret();
    single_call();
    covers(r);
    check_err(&res, r);
    if !is_err(r) && r <= i32::MAX as usize {
        assert!(res.is_ok() && res.unwrap().0.value() as usize == r);
    }
}
// @ob C09 quick w_accept_inet fns=rusl::network::accept_inet bound="kernel return value: any u64" timeout=300
#[kani::proof]
#[kani::unwind(4)]
fn w_accept_inet() {
    begin();
    let res = rusl::network::accept_inet(anyfd(), SocketFlags::SOCK_CLOEXEC);
    let r = ret();
    single_call();
    covers(r);
    check_err(&res, r);
    if !is_err(r) && r <= i32::MAX as usize {
        assert!(res.is_ok() && res.unwrap().0.value() as usize == r);
    }
}
// @ob C09 quick w_get_unix_sock_name fns=rusl::network::get_unix_sock_name bound="kernel return value: any u64" timeout=300
c09_any!(w_get_unix_sock_name, SocketArgUnix, rusl::network::get_unix_sock_name(anyfd()));
// @ob C09 quick w_get_inet_sock_name fns=rusl::network::get_inet_sock_name bound="kernel return value: any u64" timeout=300
c09_any!(w_get_inet_sock_name, SocketAddressInet, rusl::network::get_inet_sock_name(anyfd()));

// ---- select / time / futex / io_uring / termios
// @ob C09 quick w_ppoll fns=rusl::select::ppoll bound="kernel return value: any u64" timeout=300
c09_val!(w_ppoll, usize, { let mut p = [PollFd::new(fd(0), PollEvents::POLLIN)]; rusl::select::ppoll(&mut p, None, None) });
// @ob C09 quick w_epoll_create fns=rusl::select::epoll_create bound="kernel return value: any u64" timeout=300
c09_fd!(w_epoll_create, rusl::select::epoll_create(kani::any()));
// @ob C09 quick w_epoll_ctl fns=rusl::select::epoll_ctl bound="kernel return value: any u64" timeout=300
c09_unit!(w_epoll_ctl, rusl::select::epoll_ctl(anyfd(), EpollOp::Add, anyfd(), &EpollEvent::new(1, EpollEventMask::EPOLLIN)));
// @ob C09 quick w_epoll_del fns=rusl::select::epoll_del bound="kernel return value: any u64" timeout=300
c09_unit!(w_epoll_del, rusl::select::epoll_del(anyfd(), anyfd()));
// @ob C09 quick w_epoll_wait fns=rusl::select::epoll_wait bound="kernel return value: any u64" timeout=300
c09_val!(w_epoll_wait, usize, { let mut ev = [EpollEvent::new(0, EpollEventMask::EPOLLIN)]; rusl::select::epoll_wait(anyfd(), &mut ev, kani::any()) });
// @ob C09 quick w_nanosleep fns=rusl::time::nanosleep,rusl::time::nanosleep_same_ptr bound="kernel return value: any u64" timeout=300
c09_unit!(w_nanosleep, { let mut t = TimeSpec::new(1, 1); rusl::time::nanosleep_same_ptr(&mut t) });
// @ob C09 quick w_nanosleep2 fns=rusl::time::nanosleep bound="kernel return value: any u64" timeout=300
c09_unit!(w_nanosleep2, { let t = TimeSpec::new(1, 1); rusl::time::nanosleep(&t, None) });
// @ob C09 quick w_clock_get_time fns=rusl::time::clock_get_time bound="kernel return value: any u64" timeout=300
c09_any!(w_clock_get_time, TimeSpec, rusl::time::clock_get_time(ClockId::CLOCK_MONOTONIC));
// @ob C09 quick w_futex_wait fns=rusl::futex::futex_wait bound="kernel return value: any u64" timeout=300
c09_unit!(w_futex_wait, { let a = core::sync::atomic::AtomicU32::new(0); rusl::futex::futex_wait(&a, 0, FutexFlags::PRIVATE, None) });
// @ob C09 quick w_futex_wake fns=rusl::futex::futex_wake bound="kernel return value: any u64" timeout=300
c09_val!(w_futex_wake, usize, { let a = core::sync::atomic::AtomicU32::new(0); rusl::futex::futex_wake(&a, 1) });
// @ob C09 quick w_io_uring_enter fns=rusl::io_uring::io_uring_enter bound="kernel return value: any u64" timeout=300
c09_val!(w_io_uring_enter, usize, rusl::io_uring::io_uring_enter(anyfd(), 1, 0, IoUringEnterFlags::empty()));
// @ob C09 quick w_io_uring_setup fns=rusl::io_uring::io_uring_setup bound="kernel return value: any u64" timeout=300
c09_fd!(w_io_uring_setup, { let mut p = IoUringParams::new(IoUringParamFlags::empty(), 0, 0); rusl::io_uring::io_uring_setup(4, &mut p) });
// @ob C09 quick w_io_uring_register_files fns=rusl::io_uring::io_uring_register_files bound="kernel return value: any u64" timeout=300
c09_unit!(w_io_uring_register_files, { let f = [fd(3)]; unsafe { rusl::io_uring::io_uring_register_files(anyfd(), &f) } });
// @ob C09 quick w_tcgetattr fns=rusl::termios::tcgetattr bound="kernel return value: any u64" timeout=300
c09_any!(w_tcgetattr, Termios, rusl::termios::tcgetattr(anyfd()));
