//! C18 (decidable half): (1) set-up + drop of an io_uring instance maps and unmaps exactly, on success and on every
//! failing system call; (2) every submission-entry constructor encodes the operation the direct system call would get
//! (field by field against a table transcribed from io_uring_enter(2) / liburing's io_uring_prep_*).
use rusl::platform::*;
use rusl::string::unix_str::UnixStr;
use sc::nr;
use sc::vk::{ks, K};

// ------------------------------------------------------------------ (2) entry encoding
struct Raw {
    opcode: u8,
    flags: u8,
    ioprio: u16,
    fd: i32,
    off: u64,
    addr: u64,
    len: u32,
    op_flags: u32,
    user_data: u64,
    buf_index: u16,
    personality: u16,
    file_index: u32,
    pad: [u64; 2],
}
fn raw(e: &IoUringSubmissionQueueEntry) -> Raw {
    assert!(core::mem::size_of::<IoUringSubmissionQueueEntry>() == 64);
    let b: [u8; 64] = unsafe { core::mem::transmute_copy(e) };
    let u64at = |o: usize| u64::from_ne_bytes([b[o], b[o + 1], b[o + 2], b[o + 3], b[o + 4], b[o + 5], b[o + 6], b[o + 7]]);
    let u32at = |o: usize| u32::from_ne_bytes([b[o], b[o + 1], b[o + 2], b[o + 3]]);
    let u16at = |o: usize| u16::from_ne_bytes([b[o], b[o + 1]]);
    Raw { opcode: b[0], flags: b[1], ioprio: u16at(2), fd: u32at(4) as i32, off: u64at(8), addr: u64at(16), len: u32at(24),
          op_flags: u32at(28), user_data: u64at(32), buf_index: u16at(40), personality: u16at(42), file_index: u32at(44),
          pad: [u64at(48), u64at(56)] }
}
fn common(r: &Raw, opcode: u8, ud: u64, fl: IoUringSQEFlags) {
    assert!(r.opcode == opcode, "opcode");
    assert!(r.flags == fl.bits(), "entry flags passed through");
    assert!(r.user_data == ud, "user data passed through");
    assert!(r.ioprio == 0 && r.personality == 0 && r.file_index == 0 && r.pad[0] == 0 && r.pad[1] == 0, "unused fields zero");
}
fn any_fd() -> Fd {
    let n: i32 = kani::any();
    kani::assume(n >= 0);
    Fd::try_new(n).unwrap()
}
fn any_flags() -> IoUringSQEFlags {
    if kani::any() { IoUringSQEFlags::IOSQE_IO_LINK } else { IoUringSQEFlags::empty() }
}
static PATH: [u8; 3] = *b"/p\0";
static PATH2: [u8; 3] = *b"/q\0";
fn p() -> &'static UnixStr {
    unsafe { UnixStr::from_bytes_unchecked(&PATH) }
}
fn q() -> &'static UnixStr {
    unsafe { UnixStr::from_bytes_unchecked(&PATH2) }
}
const AT_FDCWD_: i32 = -100;

// @ob C18 quick sqe_rw fns=new_readv,new_writev,new_readv_fixed,new_writev_fixed bound="all argument values" timeout=600
#[kani::proof]
fn sqe_rw() {
    let (fd, ptr, n, ud, fl) = (any_fd(), kani::any::<usize>(), kani::any::<u32>(), kani::any::<u64>(), any_flags());
    let r = raw(&unsafe { IoUringSubmissionQueueEntry::new_readv(fd, ptr, n, ud, fl) });
    common(&r, 1, ud, fl); // IORING_OP_READV
    assert!(r.fd == fd.value() && r.addr == ptr as u64 && r.len == n && r.op_flags == 0 && r.buf_index == 0, "readv(fd, iov, n)");
    let r = raw(&unsafe { IoUringSubmissionQueueEntry::new_writev(fd, ptr, n, ud, fl) });
    common(&r, 2, ud, fl); // IORING_OP_WRITEV
    assert!(r.fd == fd.value() && r.addr == ptr as u64 && r.len == n && r.op_flags == 0 && r.buf_index == 0, "writev(fd, iov, n)");
    let (bi, a, l) = (kani::any::<u16>(), kani::any::<u64>(), kani::any::<u32>());
    let r = raw(&unsafe { IoUringSubmissionQueueEntry::new_readv_fixed(fd, bi, a, l, ud, fl) });
    common(&r, 4, ud, fl); // IORING_OP_READ_FIXED
    assert!(r.fd == fd.value() && r.addr == a && r.len == l && r.buf_index == bi, "read_fixed(fd, buf, len, buf_index)");
    let r = raw(&unsafe { IoUringSubmissionQueueEntry::new_writev_fixed(fd, bi, a, l, ud, fl) });
    common(&r, 5, ud, fl); // IORING_OP_WRITE_FIXED
    assert!(r.fd == fd.value() && r.addr == a && r.len == l && r.buf_index == bi, "write_fixed(fd, buf, len, buf_index)");
    kani::cover!(bi == 0xffff && l == u32::MAX && ud == u64::MAX, "extreme argument values reach the end of the harness");
}

// @ob C18 quick sqe_fs fns=new_openat,new_close,new_statx,new_unlink_at,new_rename_at,new_mkdirat bound="all argument values; directory descriptor given or AT_FDCWD" timeout=600
#[kani::proof]
fn sqe_fs() {
    let (ud, fl) = (kani::any::<u64>(), any_flags());
    let d = if kani::any() { Some(any_fd()) } else { None };
    let dfd = d.map_or(AT_FDCWD_, |f| f.value());
    let mode = Mode::from(kani::any::<u32>());
    let r = raw(&unsafe { IoUringSubmissionQueueEntry::new_openat(d, p(), OpenFlags::O_CREAT, mode, ud, fl) });
    common(&r, 18, ud, fl); // IORING_OP_OPENAT: fd=dfd, addr=path, len=mode, open_flags
    assert!(r.fd == dfd && r.addr == p().as_ptr() as u64 && r.len == mode.bits() && r.op_flags == OpenFlags::O_CREAT.bits().value() as u32 && r.off == 0,
            "openat(dfd, path, flags, mode)");
    let f = any_fd();
    let r = raw(&IoUringSubmissionQueueEntry::new_close(f, ud, fl));
    common(&r, 19, ud, fl);
    assert!(r.fd == f.value() && r.addr == 0 && r.len == 0 && r.off == 0 && r.op_flags == 0, "close(fd)");
    let mut sx = core::mem::MaybeUninit::<Statx>::uninit();
    let r = raw(&unsafe { IoUringSubmissionQueueEntry::new_statx(d, p(), StatxFlags::empty(), StatxMask::STATX_SIZE, sx.as_mut_ptr(), ud, fl) });
    common(&r, 21, ud, fl); // IORING_OP_STATX: fd=dfd, addr=path, len=mask, off=statxbuf, statx_flags
    assert!(r.fd == dfd && r.addr == p().as_ptr() as u64 && r.len == StatxMask::STATX_SIZE.bits() && r.off == sx.as_mut_ptr() as u64
            && r.op_flags == StatxFlags::empty().bits().value() as u32, "statx(dfd, path, flags, mask, buf)");
    let rmdir: bool = kani::any();
    let r = raw(&unsafe { IoUringSubmissionQueueEntry::new_unlink_at(d, p(), rmdir, ud, fl) });
    common(&r, 36, ud, fl); // IORING_OP_UNLINKAT: fd=dfd, addr=path, unlink_flags
    assert!(r.fd == dfd && r.addr == p().as_ptr() as u64 && r.op_flags == if rmdir { 0x200 } else { 0 } && r.len == 0 && r.off == 0,
            "unlinkat(dfd, path, AT_REMOVEDIR?)");
    let d2 = if kani::any() { Some(any_fd()) } else { None };
    let r = raw(&unsafe { IoUringSubmissionQueueEntry::new_rename_at(d, d2, p(), q(), RenameFlags::empty(), ud, fl) });
    common(&r, 35, ud, fl); // IORING_OP_RENAMEAT: fd=olddfd, addr=oldpath, len=newdfd, addr2=newpath, rename_flags
    assert!(r.fd == dfd && r.addr == p().as_ptr() as u64 && r.len as i32 == d2.map_or(AT_FDCWD_, |f| f.value()) && r.off == q().as_ptr() as u64
            && r.op_flags == 0, "renameat2(olddfd, old, newdfd, new, flags)");
    let r = raw(&unsafe { IoUringSubmissionQueueEntry::new_mkdirat(d, p(), mode, ud, fl) });
    common(&r, 37, ud, fl); // IORING_OP_MKDIRAT: fd=dfd, addr=path, len=mode
    assert!(r.fd == dfd && r.addr == p().as_ptr() as u64 && r.len == mode.bits() && r.off == 0 && r.op_flags == 0, "mkdirat(dfd, path, mode)");
    kani::cover!(d.is_none() && ud == 7, "relative to the working directory; the end of the harness is reached");
    kani::cover!(d.is_some() && d2.is_some() && dfd != d2.map_or(0, |f| f.value()), "two different directory descriptors");
}

// @ob C18 quick sqe_net fns=new_socket,new_connect_unix,new_accept_unix,new_accept_inet,new_sendmsg_raw,new_recvmsg,new_timeout,new_poll_add bound="all argument values" timeout=600
#[kani::proof]
fn sqe_net() {
    let (ud, fl) = (kani::any::<u64>(), any_flags());
    let f = any_fd();
    let proto: u32 = kani::any();
    let opts = SocketOptions::new(SocketType::SOCK_STREAM, SocketFlags::SOCK_CLOEXEC);
    let r = raw(&IoUringSubmissionQueueEntry::new_socket(AddressFamily::AF_UNIX, opts, proto, ud, fl));
    common(&r, 45, ud, fl); // IORING_OP_SOCKET: fd=domain, off=type, len=protocol, rw_flags=0
    assert!(r.fd == 1 && r.len == proto && r.op_flags == 0 && r.addr == 0, "socket(domain, type, protocol)");
    // connect(fd, addr, addrlen): addr = pointer to the address, off = the LENGTH (a value, as in io_uring_prep_connect)
    static SP: [u8; 3] = *b"s\0\0";
    let sa = SocketAddressUnix::try_from_unix(unsafe { UnixStr::from_bytes_unchecked(&SP[..2]) }).unwrap();
    let r = raw(&unsafe { IoUringSubmissionQueueEntry::new_connect_unix(f, &sa, ud, fl) });
    common(&r, 16, ud, fl);
    // reference: what the direct system call hands to the kernel for the same address (pointer, length)
    let k = ks();
    k.model_no_faults();
    let _ = rusl::network::connect_unix(f, &sa);
    let (direct_ptr, direct_len) = (k.log[0].a[1] as u64, k.log[0].a[2] as u64);
    assert!(k.log[0].nr == nr::CONNECT && direct_len == 2 + 2);
    assert!(r.fd == f.value() && r.addr == direct_ptr, "connect: addr field points at the socket address");
    assert!(r.off == direct_len, "connect: the off field carries the address LENGTH (as io_uring_prep_connect does), not a pointer to it");
    // accept(fd, addr, addrlen*, flags): addr = sockaddr buffer, addr2(off) = pointer to the length
    let mut peer = core::mem::MaybeUninit::<SocketAddressUnix>::uninit();
    let mut plen: u64 = 110;
    let r = raw(&unsafe { IoUringSubmissionQueueEntry::new_accept_unix(f, peer.as_mut_ptr(), &mut plen, SocketFlags::SOCK_CLOEXEC, ud, fl) });
    common(&r, 13, ud, fl);
    assert!(r.fd == f.value() && r.op_flags == SocketFlags::SOCK_CLOEXEC.bits(), "accept4 flags");
    assert!(r.addr == peer.as_mut_ptr() as u64, "accept: addr field points at the peer-address buffer");
    assert!(r.off == &mut plen as *mut u64 as u64, "accept: addr2 field points at the length");
    let mut peer4 = core::mem::MaybeUninit::<SocketAddressInet>::uninit();
    let r = raw(&unsafe { IoUringSubmissionQueueEntry::new_accept_inet(f, peer4.as_mut_ptr(), &mut plen, SocketFlags::empty(), ud, fl) });
    common(&r, 13, ud, fl);
    assert!(r.addr == peer4.as_mut_ptr() as u64 && r.off == &mut plen as *mut u64 as u64, "accept (inet): addr = buffer, addr2 = length pointer");
    // sendmsg / recvmsg: addr = msghdr, msg_flags
    let mf: i32 = kani::any();
    let mh = core::ptr::null_mut::<MsgHdr>();
    let r = raw(&unsafe { IoUringSubmissionQueueEntry::new_sendmsg_raw(f, mh, mf, ud, fl) });
    common(&r, 9, ud, fl);
    assert!(r.fd == f.value() && r.addr == mh as u64 && r.op_flags == mf as u32 && r.off == 0, "sendmsg(fd, msg, flags)");
    let r = raw(&unsafe { IoUringSubmissionQueueEntry::new_recvmsg(f, mh, mf, ud, fl) });
    common(&r, 10, ud, fl);
    assert!(r.fd == f.value() && r.addr == mh as u64 && r.op_flags == mf as u32 && r.off == 0, "recvmsg(fd, msg, flags)");
    // timeout: addr = timespec, len = 1, off = completion count, timeout_flags
    let ts = TimeSpec::new(1, 2);
    let rel: bool = kani::any();
    let cnt: u64 = kani::any();
    let r = raw(&unsafe { IoUringSubmissionQueueEntry::new_timeout(&ts, rel, Some(cnt), ud, fl) });
    common(&r, 11, ud, fl);
    assert!(r.addr == &ts as *const TimeSpec as u64 && r.len == 1 && r.off == cnt && r.op_flags == if rel { 0 } else { 1 }, "timeout(ts, count, ABS?)");
    // poll_add: fd, poll events
    let r = raw(&IoUringSubmissionQueueEntry::new_poll_add(f, PollEvents::POLLIN, PollAddMultiFlags::empty(), ud, fl));
    common(&r, 6, ud, fl);
    assert!(r.fd == f.value() && r.op_flags & 0xffff == PollEvents::POLLIN.bits() as u32 && r.addr == 0, "poll_add(fd, events)");
    kani::cover!(rel && cnt == u64::MAX && proto == 17, "relative timeout with the largest count; the end of the harness is reached");
}

// ------------------------------------------------------------------ (1) set-up and teardown
const SINGLE_MMAP: u32 = 1;
struct Setup {
    features: u32,
    entries: u32,
}
static mut SETUP: Setup = Setup { features: 0, entries: 0 };

fn hook(k: &mut K, n: usize, a: &[usize; 6]) -> Option<usize> {
    let st = unsafe { &*core::ptr::addr_of!(SETUP) };
    match n {
        nr::IO_URING_SETUP => {
            // struct io_uring_params: sq_entries@0 cq_entries@4 flags@8 sq_thread_cpu@12 sq_thread_idle@16 features@20 wq_fd@24
            // resv[3]@28 sq_off@40 (head tail ring_mask ring_entries flags dropped array resv1 user_addr) cq_off@80 (head tail
            // ring_mask ring_entries overflow cqes flags resv1 user_addr)
            let p = a[1] as *mut u32;
            unsafe {
                *p = st.entries;
                *p.add(1) = st.entries;
                *p.add(5) = st.features;
                let sq = p.add(10);
                *sq = 0; *sq.add(1) = 4; *sq.add(2) = 8; *sq.add(3) = 12; *sq.add(4) = 16; *sq.add(5) = 20; *sq.add(6) = 64;
                let cq = p.add(20);
                if st.features & SINGLE_MMAP != 0 {
                    *cq = 24; *cq.add(1) = 28; *cq.add(2) = 8; *cq.add(3) = 12; *cq.add(4) = 32; *cq.add(5) = 128; *cq.add(6) = 36;
                } else {
                    *cq = 0; *cq.add(1) = 4; *cq.add(2) = 8; *cq.add(3) = 12; *cq.add(4) = 16; *cq.add(5) = 32; *cq.add(6) = 20;
                }
            }
            Some(k.alloc_fd())
        }
        nr::MMAP => {
            let addr = k.mmap_alloc(a[1]);
            if !sc::vk::is_err(addr) {
                // what the kernel keeps in the ring headers: ring_mask @8, ring_entries @12
                unsafe {
                    let w = addr as *mut u32;
                    *w.add(2) = st.entries - 1;
                    *w.add(3) = st.entries;
                }
            }
            Some(addr)
        }
        _ => None,
    }
}

/// native replays only: the mapping table and the munmap calls of the counterexample
fn dump(k: &K, entries: u32, single: bool) {
    println!("trace: entries={} single_mmap={} bad_unmap={}", entries, single, k.bad_unmap);
    let mut i = 0;
    while i < sc::vk::NMAP {
        println!("trace: map {} addr={:#x} len={} live={}", i, k.maps[i].addr, k.maps[i].len, k.maps[i].live);
        i += 1;
    }
    i = 0;
    while i < k.calls && i < sc::vk::LOG {
        let c = &k.log[i];
        println!("  call {}: nr={} a0={:#x} a1={:#x} -> {:#x}{}", i, c.nr, c.a[0], c.a[1], c.ret, if c.failed { " (injected failure)" } else { "" });
        i += 1;
    }
}

// @ob C18 quick uring_setup_teardown fns=setup_io_uring,io_uring_setup,rusl::unistd::mmap,IoUring::drop,rusl::unistd::munmap bound="entries 1,2,4; SINGLE_MMAP feature on/off; SQE128 flag on/off; one failing system call at any index (or none)" timeout=1500
#[kani::proof]
#[kani::unwind(26)]
fn uring_setup_teardown() {
    let k = ks();
    k.model_with_one_fault();
    k.hook = Some(hook);
    k.max_calls = 12;
    let entries: u32 = kani::any();
    kani::assume(entries == 1 || entries == 2 || entries == 4);
    let single: bool = kani::any();
    unsafe {
        (*core::ptr::addr_of_mut!(SETUP)).entries = entries;
        (*core::ptr::addr_of_mut!(SETUP)).features = if single { SINGLE_MMAP } else { 0 };
    }
    k.begin_operation();
    let flags = if kani::any() { IoUringParamFlags::IORING_SETUP_SQE128 } else { IoUringParamFlags::empty() };
    kani::assume(flags.bits() == 0 || entries <= 2); // 128-byte entries: keep the SQE region inside one arena
    let r = rusl::io_uring::setup_io_uring(entries, flags, 0, 0);
    kani::cover!(r.is_ok() && single, "set up with a single ring mapping");
    kani::cover!(r.is_ok() && !single, "set up with separate ring mappings");
    kani::cover!(r.is_err() && k.n_maps >= 1, "a later step failed after a mapping existed");
    match r {
        Ok(ring) => {
            assert!(k.live_maps() == if single { 2 } else { 3 }, "rings and entries mapped");
            drop(ring);
            if k.bad_unmap != 0 || k.live_maps() != 0 {
                dump(k, entries, single);
            }
            assert!(k.bad_unmap == 0, "dropping the ring unmaps each mapping exactly once with its exact address and length (no range twice, nothing else)");
            if k.count_failed(nr::MUNMAP) == 0 {
                // (an munmap that the kernel itself refuses cannot be repaired by drop)
                assert!(k.live_maps() == 0, "dropping the ring releases every mapping");
            }
            assert!(k.fd_open == k.fd_initial && k.bad_close == 0, "and its descriptor, once");
        }
        Err(_) => {
            assert!(k.bad_unmap == 0, "no bogus unmap on the failure path");
            if k.count_failed(nr::MUNMAP) == 0 {
                assert!(k.live_maps() == 0, "a failed set-up leaves nothing mapped");
            }
            assert!(k.fd_open == k.fd_initial, "a failed set-up leaves no descriptor open");
        }
    }
}
