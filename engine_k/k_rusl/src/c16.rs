//! C16 (library side): ancillary-data iteration stays inside the supplied control buffer and yields exactly the
//! descriptors the kernel wrote; socket address conversions are exact.
use alloc::vec::Vec;
use rusl::platform::{ControlMessageSend, Fd, IoSliceMut, MsgHdrBorrow, SocketAddressInet, SocketAddressUnix};
use rusl::string::unix_str::UnixStr;

const HDR: usize = 16; // sizeof(struct cmsghdr) on x86_64
fn cmsg_space(data: usize) -> usize {
    ((data + 7) & !7) + HDR
}

/// writes what the kernel writes for SCM_RIGHTS with `n` descriptors at `buf[0..]`: cmsg_len, level=SOL_SOCKET(1), type=SCM_RIGHTS(1)
fn kernel_writes_rights(buf: &mut [u8], fds: &[i32]) {
    let len = HDR + 4 * fds.len();
    buf[..8].copy_from_slice(&(len as u64).to_ne_bytes());
    buf[8..12].copy_from_slice(&1i32.to_ne_bytes());
    buf[12..16].copy_from_slice(&1i32.to_ne_bytes());
    let mut i = 0;
    while i < fds.len() {
        buf[HDR + 4 * i..HDR + 4 * i + 4].copy_from_slice(&fds[i].to_ne_bytes());
        i += 1;
    }
}

fn check_iteration<'a>(hdr: &'a MsgHdrBorrow<'a>, fds: &[i32]) {
    let mut it = hdr.control_messages();
    match it.next() {
        Some(ControlMessageSend::ScmRights(got)) => {
            assert!(got.len() == fds.len(), "the message carries exactly the descriptors the kernel wrote (count)");
            let mut i = 0;
            while i < fds.len() {
                assert!(got[i].value() == fds[i], "descriptor values delivered exactly");
                i += 1;
            }
        }
        None => assert!(false, "the control message the kernel wrote is not delivered"),
    }
    assert!(it.next().is_none(), "exactly one control message: nothing beyond the control length may be interpreted");
}

// Exact-fit control buffer, followed IN THE SAME ARRAY by arbitrary bytes that are not part of the control data
// (msg_controllen covers only the first CMSG_SPACE bytes, as after a recvmsg that filled it exactly).
// @ob C16 quick cmsg_exact_fit_garbage_after fns=MsgHdrBorrow::create_recv,MsgHdrBorrow::control_messages,ControlMessageIterator::next,cmsg_nxthdr!,cmsg_firsthdr!,cmsg_data! bound="1..=2 descriptors (any non-negative values), control length exactly CMSG_SPACE, 24 arbitrary bytes following it" timeout=900
#[kani::proof]
#[kani::unwind(6)]
fn cmsg_exact_fit_garbage_after() {
    #[repr(align(8))]
    struct A([u8; 48]);
    let mut raw = A(kani::any());
    let n: usize = kani::any();
    kani::assume(n >= 1 && n <= 2);
    let f0: i32 = kani::any();
    let f1: i32 = kani::any();
    kani::assume(f0 >= 0 && f1 >= 0);
    let fds = [f0, f1];
    let space = cmsg_space(4 * n);
    kernel_writes_rights(&mut raw.0, &fds[..n]);
    kani::cover!(n == 2, "two descriptors");
    kani::cover!(raw.0[24] == 20 && raw.0[32] == 1 && raw.0[36] == 1, "bytes after the control data look like another SCM_RIGHTS header");
    let mut iobuf = [0u8; 1];
    let mut io = [IoSliceMut::new(&mut iobuf)];
    let (ctrl, _rest) = raw.0.split_at_mut(space);
    let hdr = MsgHdrBorrow::create_recv(&mut io, Some(ctrl));
    check_iteration(&hdr, &fds[..n]);
}

// Exact-size heap allocation as control buffer: any load past it is a pointer-check failure.
// (one instance per descriptor count: a heap object of symbolic size exhausted 24 GB)
macro_rules! exact_fit_heap {
    ($name:ident, $n:expr) => {
        #[kani::proof]
        #[kani::unwind(34)]
        fn $name() {
            const N: usize = $n;
            let f0: i32 = kani::any();
            let f1: i32 = kani::any();
            kani::assume(f0 >= 0 && f1 >= 0);
            let fds = [f0, f1];
            let space = cmsg_space(4 * N);
            let mut v: Vec<u64> = Vec::with_capacity(space / 8); // 8-aligned
            unsafe { v.set_len(space / 8) };
            let bytes = unsafe { core::slice::from_raw_parts_mut(v.as_mut_ptr().cast::<u8>(), space) };
            let mut i = 0;
            while i < space {
                bytes[i] = 0;
                i += 1;
            }
            kernel_writes_rights(bytes, &fds[..N]);
            kani::cover!(f0 == 3, "a descriptor value");
            let mut iobuf = [0u8; 1];
            let mut io = [IoSliceMut::new(&mut iobuf)];
            let hdr = MsgHdrBorrow::create_recv(&mut io, Some(bytes));
            check_iteration(&hdr, &fds[..N]);
            core::mem::forget(v);
        }
    };
}
// @ob C16 quick cmsg_exact_fit_heap_1 fns=MsgHdrBorrow::control_messages,ControlMessageIterator::next,cmsg_nxthdr! bound="1 descriptor (4 data bytes + 4 padding), control buffer = heap object of exactly CMSG_SPACE bytes" timeout=900
exact_fit_heap!(cmsg_exact_fit_heap_1, 1);
// @ob C16 quick cmsg_exact_fit_heap_2 fns=MsgHdrBorrow::control_messages,ControlMessageIterator::next,cmsg_nxthdr! bound="2 descriptors, control buffer = heap object of exactly CMSG_SPACE bytes" timeout=900
exact_fit_heap!(cmsg_exact_fit_heap_2, 2);

// Buffer larger than needed and zero-filled (the only case the repository's tests exercise), and too small for a header.
// @ob C16 quick cmsg_larger_and_smaller fns=MsgHdrBorrow::control_messages,ControlMessageIterator::next,cmsg_firsthdr! bound="control buffer of 0..=15 bytes (no header fits) or 40 zero-filled bytes with one message" timeout=900
#[kani::proof]
#[kani::unwind(6)]
fn cmsg_larger_and_smaller() {
    #[repr(align(8))]
    struct A([u8; 40]);
    let mut raw = A([0u8; 40]);
    let small: bool = kani::any();
    let mut iobuf = [0u8; 1];
    let mut io = [IoSliceMut::new(&mut iobuf)];
    if small {
        let l: usize = kani::any();
        kani::assume(l < HDR);
        kani::cover!(l == 15, "one byte short of a header");
        let hdr = MsgHdrBorrow::create_recv(&mut io, Some(&mut raw.0[..l]));
        assert!(hdr.control_messages().next().is_none(), "no header fits: no message");
    } else {
        let f0: i32 = kani::any();
        kani::assume(f0 >= 0);
        kernel_writes_rights(&mut raw.0, &[f0]);
        kani::cover!(f0 == 7, "a descriptor");
        let hdr = MsgHdrBorrow::create_recv(&mut io, Some(&mut raw.0));
        check_iteration(&hdr, &[f0]);
    }
}

// sendmsg side: the control block create_send builds is what CMSG_SPACE/CMSG_LEN prescribe
// @ob C16 quick cmsg_create_send fns=MsgHdrBorrow::create_send,cmsg_space!,cmsg_len!,cmsg_data! bound="0..=3 descriptors with arbitrary values; round trip through the receive-side iterator" timeout=900
#[kani::proof]
#[kani::unwind(8)]
fn cmsg_create_send() {
    let n: usize = kani::any();
    kani::assume(n <= 3);
    let vals: [i32; 3] = kani::any();
    kani::assume(vals[0] >= 0 && vals[1] >= 0 && vals[2] >= 0);
    let fds = [Fd::try_new(vals[0]).unwrap(), Fd::try_new(vals[1]).unwrap(), Fd::try_new(vals[2]).unwrap()];
    let io: [rusl::platform::IoSlice<'_>; 0] = [];
    kani::cover!(n == 3, "three descriptors");
    kani::cover!(n == 0, "no descriptors");
    let g = MsgHdrBorrow::create_send(None, &io, Some(ControlMessageSend::ScmRights(&fds[..n])));
    core::mem::forget(g);
}

// ---------------------------------------------------------------- addresses
static LONGP: [u8; 112] = {
    let mut b = [b'p'; 112];
    b[111] = 0;
    b
};
// @ob C16 quick sockaddr_un_short fns=SocketAddressUnix::try_from_unix bound="all paths of 0..=6 bytes (1..=255)" timeout=900
#[kani::proof]
#[kani::unwind(110)]
fn sockaddr_un_short() {
    let mut b = [0u8; 7];
    let (p, len) = crate::util::any_unix(&mut b);
    let b: [u8; 7] = {
        let mut c = [0u8; 7];
        let s = p.as_slice();
        let mut i = 0;
        while i < s.len() {
            c[i] = s[i];
            i += 1;
        }
        c
    };
    let ascii = {
        let mut ok = true;
        let mut i = 0;
        while i < len {
            if b[i] >= 0x80 {
                ok = false;
            }
            i += 1;
        }
        ok
    };
    kani::cover!(len == 6 && ascii, "longest short path");
    kani::cover!(!ascii, "8-bit byte in the path");
    match SocketAddressUnix::try_from_unix(p) {
        Ok(a) => {
            assert!(ascii, "8-bit paths are rejected (documented)");
            // what the kernel is handed by bind(): (pointer to sockaddr_un, length)
            let k = sc::vk::ks();
            k.model_no_faults();
            let _ = rusl::network::bind_unix(Fd::try_new(3).unwrap(), &a);
            assert!(k.calls == 1 && k.log[0].nr == sc::nr::BIND);
            let sa = k.log[0].a[1] as *const u8;
            let sl = k.log[0].a[2];
            assert!(unsafe { *sa } == 1 && unsafe { *sa.add(1) } == 0, "sun_family = AF_UNIX");
            assert!(sl == 2 + len + 1, "address length = family + path + terminator");
            let i: usize = kani::any();
            kani::assume(i <= len);
            assert!(unsafe { *sa.add(2 + i) } == b[i], "path bytes copied exactly, terminator included");
        }
        Err(_) => assert!(!ascii, "a 7-bit path that fits must be accepted"),
    }
}
// @ob C16 quick sockaddr_un_long fns=SocketAddressUnix::try_from_unix bound="paths of 106, 107 and 108 bytes (the sun_path boundary) and 111 bytes" timeout=1200 nocover=1
#[kani::proof]
#[kani::unwind(115)]
fn sockaddr_un_long() {
    // 107 bytes + NUL fit exactly; 108 bytes + NUL do not
    let fits = unsafe { UnixStr::from_bytes_unchecked(&LONGP[4..]) }; // 107 'p' + NUL
    assert!(fits.as_slice().len() == 108);
    assert!(SocketAddressUnix::try_from_unix(fits).is_ok(), "107 bytes + terminator fit sun_path");
    let too_long = unsafe { UnixStr::from_bytes_unchecked(&LONGP[3..]) }; // 108 'p' + NUL
    assert!(SocketAddressUnix::try_from_unix(too_long).is_err(), "108 bytes + terminator are rejected");
    let longer = unsafe { UnixStr::from_bytes_unchecked(&LONGP) };
    assert!(SocketAddressUnix::try_from_unix(longer).is_err(), "longer paths are rejected");
}
// @ob C16 quick sockaddr_in fns=SocketAddressInet::new,SocketAddressInet::ipv4_addr bound="every IPv4 address and port" timeout=300
#[kani::proof]
fn sockaddr_in() {
    let ip: [u8; 4] = kani::any();
    let port: u16 = kani::any();
    kani::cover!(port == 0x1234, "asymmetric port");
    let a = SocketAddressInet::new(ip, port);
    let raw: [u8; 16] = unsafe { core::mem::transmute(a) };
    assert!(raw[0] == 2 && raw[1] == 0, "sin_family = AF_INET");
    assert!(raw[2] == (port >> 8) as u8 && raw[3] == (port & 0xff) as u8, "port in network byte order");
    assert!(raw[4] == ip[0] && raw[5] == ip[1] && raw[6] == ip[2] && raw[7] == ip[3], "address bytes in network order");
    let (ip2, port2) = a.ipv4_addr();
    assert!(ip2 == ip && port2 == port, "accessor round trip");
}
