//! C16 (library side, wait logic): the non-blocking-socket helpers wait with ppoll exactly as specified.
//! The kernel hook scripts read/write (EAGAIN or a count) and ppoll (ready / time-out / EINTR) symbolically.
use core::time::Duration;
use sc::nr;
use sc::vk::{err, ks, K};
use tiny_std::io::{Read, Write};
use tiny_std::net::{TcpListener, TcpStream, UnixListener, UnixStream};

struct Obs {
    polls: u32,
    poll_timeouts: u32,
    poll_ready: u32,
    poll_eintr: u32,
    ts_present: bool,
    ts_s: i64,
    ts_ns: i64,
    ops: u32,
    op_after_ready_blocked: bool,
    last_op_ret: usize,
    first_op_eagain: bool,
    accept_flags_ok: bool,
    accepted: u32,
}
static mut OBS: Obs = Obs { polls: 0, poll_timeouts: 0, poll_ready: 0, poll_eintr: 0, ts_present: false, ts_s: 0, ts_ns: 0, ops: 0,
                            op_after_ready_blocked: false, last_op_ret: 0, first_op_eagain: false, accept_flags_ok: true, accepted: 0 };
fn obs() -> &'static mut Obs {
    unsafe { &mut *core::ptr::addr_of_mut!(OBS) }
}

const EAGAIN: usize = 11;
const EINTR: usize = 4;

fn hook(k: &mut K, n: usize, a: &[usize; 6]) -> Option<usize> {
    let o = obs();
    match n {
        nr::READ | nr::WRITE | nr::ACCEPT4 => {
            o.ops += 1;
            // the first attempt may find the socket not ready; after ppoll reported readiness the operation proceeds
            let blocked: bool = kani::any();
            let r = if blocked && o.poll_ready == 0 {
                if o.ops == 1 {
                    o.first_op_eagain = true;
                }
                err(EAGAIN)
            } else if n == nr::ACCEPT4 {
                // a stream of this library is always non-blocking (its reads wait with ppoll, which is what makes the
                // time-limited variants able to report Timeout) and close-on-exec
                o.accepted += 1;
                if a[3] & 0x800 == 0 || a[3] & 0x80000 == 0 {
                    o.accept_flags_ok = false;
                }
                k.alloc_fd()
            } else {
                let c: usize = kani::any();
                kani::assume(c <= a[2]);
                c
            };
            o.last_op_ret = r;
            Some(r)
        }
        nr::PPOLL => {
            o.polls += 1;
            let ts = a[2] as *const i64;
            if ts.is_null() {
                o.ts_present = false;
            } else {
                o.ts_present = true;
                unsafe {
                    o.ts_s = *ts;
                    o.ts_ns = *ts.add(1);
                }
            }
            let which: u8 = kani::any();
            kani::assume(which < 3);
            // bounded: at most 2 interruptions
            if which == 2 && o.poll_eintr < 2 {
                o.poll_eintr += 1;
                return Some(err(EINTR));
            }
            if which == 0 && !ts.is_null() {
                o.poll_timeouts += 1;
                return Some(0);
            }
            o.poll_ready += 1;
            Some(1)
        }
        _ => None,
    }
}

fn setup() {
    let k = ks();
    k.model_no_faults();
    k.hook = Some(hook);
    k.max_calls = 10;
}
fn stream() -> UnixStream {
    // an already connected stream: descriptor 5
    let k = ks();
    k.fd_open |= 1 << 5;
    unsafe { core::mem::transmute::<i32, UnixStream>(5) }
}
fn tcp() -> TcpStream {
    let k = ks();
    k.fd_open |= 1 << 6;
    unsafe { core::mem::transmute::<i32, TcpStream>(6) }
}

// @ob C16 quick read_waits_for_readiness fns=UnixStream::read,blocking_read_nonblock_sock,rusl::select::ppoll bound="read on a connected stream: first attempt EAGAIN or a count; ppoll ready | EINTR (<=2)" timeout=900
#[kani::proof]
#[kani::unwind(6)]
fn read_waits_for_readiness() {
    setup();
    let mut s = stream();
    let mut buf = [0u8; 4];
    let r = s.read(&mut buf);
    let o = obs();
    kani::cover!(o.first_op_eagain && r.is_ok(), "blocked once, then read after readiness");
    kani::cover!(o.poll_eintr == 2, "ppoll interrupted twice and retried");
    kani::cover!(!o.first_op_eagain, "data was there at once");
    if o.first_op_eagain {
        assert!(o.polls >= 1, "a not-ready socket is waited for");
        assert!(!o.ts_present, "a blocking read waits without a time limit");
        assert!(o.ops == 2, "the operation is retried exactly once after readiness");
        assert!(r.is_ok(), "after readiness the read result is returned");
    } else {
        assert!(o.polls == 0 && o.ops == 1, "no wait when the first attempt succeeds");
    }
    if let Ok(c) = r {
        assert!(c == o.last_op_ret && c <= 4, "the count returned is the kernel's");
    }
    core::mem::forget(s);
}

// @ob C16 quick write_waits_for_readiness fns=UnixStream::write,blocking_write_nonblock_sock bound="write on a connected stream: first attempt EAGAIN (buffer full) or a short count; ppoll ready | EINTR (<=2)" timeout=900
#[kani::proof]
#[kani::unwind(6)]
fn write_waits_for_readiness() {
    setup();
    let mut s = stream();
    let r = s.write(&[1u8, 2, 3, 4]);
    let o = obs();
    kani::cover!(o.first_op_eagain && r.is_ok(), "buffer full, waited, then wrote");
    if o.first_op_eagain {
        assert!(o.polls >= 1 && !o.ts_present && o.ops == 2 && r.is_ok());
    } else {
        assert!(o.polls == 0 && o.ops == 1);
    }
    if let Ok(c) = r {
        assert!(c == o.last_op_ret && c <= 4, "short writes are reported as such (write_all completes them, see C15)");
    }
    core::mem::forget(s);
}

// @ob C16 quick read_with_timeout_exact fns=TcpStream::read_with_timeout,blocking_read_nonblock_sock,TimeSpec::try_from bound="any Duration; ppoll: time-out | ready | EINTR (<=2)" timeout=900
#[kani::proof]
#[kani::unwind(6)]
fn read_with_timeout_exact() {
    setup();
    let mut s = tcp();
    let secs: u64 = kani::any();
    let nanos: u32 = kani::any();
    kani::assume(nanos < 1_000_000_000);
    let d = Duration::new(secs, nanos);
    let mut buf = [0u8; 4];
    let r = s.read_with_timeout(&mut buf, d);
    let o = obs();
    kani::cover!(matches!(r, Err(tiny_std::Error::Timeout)), "timed out");
    kani::cover!(o.first_op_eagain && r.is_ok(), "became ready in time");
    kani::cover!(secs > i64::MAX as u64, "duration that does not fit a timespec");
    match r {
        Err(tiny_std::Error::Timeout) => {
            assert!(o.poll_timeouts == 1, "Timeout is reported only after ppoll itself timed out");
            assert!(o.ts_present && o.ts_s as u64 == secs && o.ts_ns as u32 == nanos,
                    "the time limit handed to ppoll is exactly the requested Duration (never shorter)");
        }
        Ok(_) => {
            assert!(o.poll_timeouts == 0);
            if o.polls > 0 {
                assert!(o.ts_present && o.ts_s as u64 == secs && o.ts_ns as u32 == nanos, "exact time limit");
            }
        }
        Err(_) => assert!(secs > i64::MAX as u64, "only an unrepresentable duration is an error here"),
    }
    core::mem::forget(s);
}

macro_rules! accept_harness {
    ($name:ident, $listener:ty) => {
        #[kani::proof]
        #[kani::unwind(6)]
        fn $name() {
            setup();
            let k = ks();
            k.fd_open |= 1 << 7;
            let mut l: $listener = unsafe { core::mem::transmute::<i32, $listener>(7) };
            let which: u8 = kani::any();
            let o = obs();
            match which {
                0 => {
                    let r = l.try_accept();
                    assert!(o.polls == 0, "try_accept never waits");
                    assert!(o.ops == 1, "one attempt");
                    kani::cover!(matches!(r, Ok(None)), "nothing to accept right now");
                    kani::cover!(matches!(r, Ok(Some(_))), "a connection was waiting");
                    if o.first_op_eagain {
                        assert!(matches!(r, Ok(None)), "not ready -> None, not an error");
                    }
                    if let Ok(Some(s)) = r {
                        core::mem::forget(s);
                    }
                }
                1 => {
                    let r = l.accept();
                    if o.first_op_eagain {
                        assert!(o.polls >= 1 && !o.ts_present, "blocking accept waits without limit");
                    }
                    kani::cover!(o.first_op_eagain && r.is_ok(), "accepted after waiting");
                    if let Ok(s) = r {
                        core::mem::forget(s);
                    }
                }
                _ => {
                    let r = l.accept_with_timeout(Duration::new(3, 7));
                    if let Err(tiny_std::Error::Timeout) = r {
                        assert!(o.poll_timeouts == 1 && o.ts_s == 3 && o.ts_ns == 7, "Timeout only after ppoll timed out with the exact limit");
                    }
                    kani::cover!(matches!(r, Err(tiny_std::Error::Timeout)), "accept timed out");
                    if let Ok(s) = r {
                        core::mem::forget(s);
                    }
                }
            }
            assert!(o.accept_flags_ok, "every accepted stream is created non-blocking and close-on-exec");
            core::mem::forget(l);
        }
    };
}
// @ob C16 quick try_accept_never_waits fns=UnixListener::try_accept,UnixListener::accept,UnixListener::accept_with_timeout,sock_nonblock_op_poll_if_not_ready bound="listener pre-existing; accept4: EAGAIN or a descriptor; ppoll script" timeout=900
accept_harness!(try_accept_never_waits, UnixListener);
// @ob C16 quick tcp_accept_variants fns=TcpListener::try_accept,TcpListener::accept,TcpListener::accept_with_timeout bound="as try_accept_never_waits, TCP listener" timeout=900
accept_harness!(tcp_accept_variants, TcpListener);
