//! C15 — Read/Write helpers are exact for any pattern of short transfers, EINTR and errors.
//! The reader/writer is a script decided by the solver call by call.
use rusl::error::Errno;
use tiny_std::io::{Read, Write};
use tiny_std::Error;

const N: usize = 8;

fn eintr() -> Error {
    Error::Os { msg: "interrupted", code: Errno::EINTR }
}
fn other_err() -> Error {
    Error::Os { msg: "io error", code: Errno::EIO }
}

/// delivers `data[..total]` in arbitrary short pieces; 0 only at end of data; EINTR / EIO at the solver's choice
struct ScriptReader {
    data: [u8; N],
    total: usize,
    pos: usize,
    calls: usize,
    max_calls: usize,
    eintrs: usize,
    gave_error: bool,
}
impl Read for ScriptReader {
    fn read(&mut self, buf: &mut [u8]) -> tiny_std::Result<usize> {
        self.calls += 1;
        kani::assume(self.calls <= self.max_calls);
        let action: u8 = kani::any();
        if action == 0 {
            self.eintrs += 1;
            return Err(eintr());
        }
        if action == 1 {
            self.gave_error = true;
            return Err(other_err());
        }
        let remaining = self.total - self.pos;
        let k: usize = kani::any();
        kani::assume(k <= remaining && k <= buf.len());
        kani::assume(k > 0 || remaining == 0 || buf.is_empty());
        let mut i = 0;
        while i < k {
            buf[i] = self.data[self.pos + i];
            i += 1;
        }
        self.pos += k;
        Ok(k)
    }
}

macro_rules! c15_read_exact {
    ($name:ident, $calls:expr, $u:expr) => {
        #[kani::proof]
        #[kani::unwind($u)]
        fn $name() {
            let total: usize = kani::any();
            let want: usize = kani::any();
            kani::assume(total <= N && want <= N);
            let mut r = ScriptReader { data: kani::any(), total, pos: 0, calls: 0, max_calls: $calls, eintrs: 0, gave_error: false };
            let mut out = [0xEEu8; N];
            let res = r.read_exact(&mut out[..want]);
            kani::cover!(res.is_ok() && want == N && r.calls >= 3, "filled in several short pieces");
            kani::cover!(res.is_ok() && r.eintrs >= 1 && want > 1, "EINTR in between, still filled");
            kani::cover!(res.is_err() && !r.gave_error && total < want, "premature end of data");
            kani::cover!(res.is_err() && r.gave_error, "reader error surfaced");
            match res {
                Ok(()) => {
                    assert!(!r.gave_error, "a non-EINTR error must be returned");
                    assert!(r.pos == want, "exactly the requested bytes were consumed");
                    let i: usize = kani::any();
                    kani::assume(i < N);
                    if i < want {
                        assert!(out[i] == r.data[i], "read_exact delivers exactly the concatenated bytes");
                    } else {
                        assert!(out[i] == 0xEE, "nothing is written past the requested length");
                    }
                }
                Err(e) => {
                    if r.gave_error {
                        assert!(e.matches_errno(Errno::EIO), "the reader's error is the one returned");
                    } else {
                        assert!(total < want, "without a reader error, failure means the data ended early");
                    }
                }
            }
        }
    };
}
// @ob C15 quick read_exact_8b_5calls fns=Read::read_exact,default_read_exact bound="data 0..=8 bytes, request 0..=8 bytes, <=5 reader calls each returning k bytes (0<k<=len) | 0 at end | EINTR | EIO" timeout=900
c15_read_exact!(read_exact_8b_5calls, 5, 10);
// @ob C15 quick read_exact_8b_9calls fns=Read::read_exact,default_read_exact bound="as quick, <=9 reader calls" timeout=3000
c15_read_exact!(read_exact_8b_9calls, 9, 12);

// read_to_end: exact-fit capacity, probe buffer, growth.  (Round 0 probes with symbolic capacities exhausted 40-60 GB; this
// formulation fixes the initial capacity per instance and keeps the data short.)
macro_rules! c15_read_to_end {
    ($name:ident, $cap:expr, $total:expr, $calls:expr, $u:expr) => {
        #[kani::proof]
        #[kani::unwind($u)]
        fn $name() {
            let total: usize = kani::any();
            kani::assume(total <= $total);
            let mut r = ScriptReader { data: kani::any(), total, pos: 0, calls: 0, max_calls: $calls, eintrs: 0, gave_error: false };
            let mut v: alloc::vec::Vec<u8> = alloc::vec::Vec::with_capacity($cap);
            let res = r.read_to_end(&mut v);
            kani::cover!(res.is_ok() && total == $total && r.calls >= 4, "all data delivered over several short reads");
            kani::cover!(res.is_ok() && total > $cap && $cap > 0, "the exact-fit probe found more data");
            match res {
                Ok(n) => {
                    assert!(!r.gave_error, "a non-EINTR error must be returned");
                    assert!(r.pos == total, "end of data was reached: nothing is left unread");
                    assert!(n == total && v.len() == total, "the count returned is the number of bytes appended");
                    let i: usize = kani::any();
                    kani::assume(i < total);
                    assert!(v[i] == r.data[i], "read_to_end delivers exactly the concatenated bytes");
                }
                Err(e) => {
                    assert!(r.gave_error && e.matches_errno(Errno::EIO), "failure only with the reader's own error");
                }
            }
            core::mem::forget(v);
        }
    };
}
// (no obligation registered: with capacity 2, <=5 bytes and <=6 calls symbolic execution did not finish in 20 min - the
// Vec growth path (reserve / extend_from_slice / spare_capacity_mut) with symbolic lengths; read_to_end stays outside C15)

/// accepts arbitrary short writes; may report 0 accepted, EINTR or EIO at the solver's choice
struct ScriptWriter {
    out: [u8; 2 * N],
    len: usize,
    calls: usize,
    max_calls: usize,
    gave_error: bool,
    gave_zero: bool,
}
impl Write for ScriptWriter {
    fn write(&mut self, buf: &[u8]) -> tiny_std::Result<usize> {
        self.calls += 1;
        kani::assume(self.calls <= self.max_calls);
        let action: u8 = kani::any();
        if action == 0 {
            return Err(eintr());
        }
        if action == 1 {
            self.gave_error = true;
            return Err(other_err());
        }
        let k: usize = kani::any();
        kani::assume(k <= buf.len());
        if k == 0 {
            self.gave_zero = true;
        }
        let mut i = 0;
        while i < k {
            assert!(self.len + i < 2 * N, "more bytes written than were ever given");
            self.out[self.len + i] = buf[i];
            i += 1;
        }
        self.len += k;
        Ok(k)
    }
    fn flush(&mut self) -> tiny_std::Result<()> {
        Ok(())
    }
}

fn check_writer(w: &ScriptWriter, res: &tiny_std::Result<()>, input: &[u8]) {
    // in every outcome: what reached the writer is a prefix of the input - every byte at most once and in order
    assert!(w.len <= input.len(), "no byte is written twice");
    let i: usize = kani::any();
    kani::assume(i < N);
    if i < w.len {
        assert!(w.out[i] == input[i], "bytes arrive in order and unduplicated");
    }
    match res {
        Ok(()) => {
            assert!(w.len == input.len(), "Ok means every byte was delivered");
            assert!(!w.gave_error, "the writer's error must be returned");
        }
        Err(e) => {
            if w.gave_error {
                assert!(e.matches_errno(Errno::EIO), "the writer's error is the one returned");
            } else {
                assert!(w.gave_zero && !input.is_empty(), "without a writer error, failure means the writer accepted nothing");
            }
        }
    }
}

macro_rules! c15_write_all {
    ($name:ident, $calls:expr, $u:expr) => {
        #[kani::proof]
        #[kani::unwind($u)]
        fn $name() {
            let data: [u8; N] = kani::any();
            let n: usize = kani::any();
            kani::assume(n <= N);
            let mut w = ScriptWriter { out: [0; 2 * N], len: 0, calls: 0, max_calls: $calls, gave_error: false, gave_zero: false };
            let res = w.write_all(&data[..n]);
            kani::cover!(res.is_ok() && n == N && w.calls >= 3, "delivered in several short writes");
            kani::cover!(res.is_err() && w.gave_zero && !w.gave_error, "zero-length write");
            kani::cover!(res.is_err() && w.gave_error && w.len > 0, "error after partial delivery");
            check_writer(&w, &res, &data[..n]);
        }
    };
}
// @ob C15 quick write_all_8b_5calls fns=Write::write_all bound="0..=8 bytes, <=5 writer calls each accepting k bytes (0<=k<=len) | EINTR | EIO" timeout=900
c15_write_all!(write_all_8b_5calls, 5, 10);
// @ob C15 quick write_all_8b_9calls fns=Write::write_all bound="as quick, <=9 writer calls" timeout=3000
c15_write_all!(write_all_8b_9calls, 9, 12);

// @ob C15 quick write_fmt_4b fns=Write::write_fmt,Adapter::write_str,core::fmt::write bound="one `{}` of an ASCII str of 0..=4 bytes between two literal pieces, <=6 writer calls with short writes | EINTR | EIO" timeout=1500
#[kani::proof]
#[kani::unwind(10)]
fn write_fmt_4b() {
    let raw: [u8; 4] = kani::any();
    let n: usize = kani::any();
    kani::assume(n <= 4);
    let mut i = 0;
    while i < 4 {
        kani::assume(raw[i] < 0x80);
        i += 1;
    }
    let s = unsafe { core::str::from_utf8_unchecked(&raw[..n]) };
    let mut w = ScriptWriter { out: [0; 2 * N], len: 0, calls: 0, max_calls: 6, gave_error: false, gave_zero: false };
    let res = w.write_fmt(format_args!("<{}>", s));
    // expected rendering: '<' s '>'
    let mut expect = [0u8; N];
    expect[0] = b'<';
    i = 0;
    while i < n {
        expect[1 + i] = raw[i];
        i += 1;
    }
    expect[1 + n] = b'>';
    kani::cover!(res.is_ok() && n == 4, "longest operand delivered");
    kani::cover!(res.is_err() && w.gave_error, "writer error surfaced through the adapter");
    check_writer(&w, &res, &expect[..n + 2]);
}
