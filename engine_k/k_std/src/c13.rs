//! C13 — Command::spawn returns only in the caller; the child runs exactly what was configured, or the caller
//! gets an error carrying the failing step's errno.  (Also the C12 obligations for spawn's descriptors.)
//!
//! fork() returns symbolically "I am the child" (0) or "I am the parent" (pid); the two continuations are
//! separate paths of the same harness.  exit() ends a path.  execve() either "succeeds" (path ends there, after
//! the kernel hook checked what it was given) or fails with a symbolic errno.
use alloc::vec::Vec;
use rusl::platform::Fd;
use rusl::string::unix_str::{UnixStr, UnixString};
use sc::nr;
use sc::vk::{err, ks, K};
use tiny_std::process::{Command, Stdio};

static BIN: [u8; 5] = *b"/bin\0";
static A1: [u8; 3] = *b"-a\0";
static A2: [u8; 2] = *b"b\0";
static CWD: [u8; 5] = *b"/cwd\0";
fn us(b: &'static [u8]) -> &'static UnixStr {
    unsafe { UnixStr::from_bytes_unchecked(b) }
}

struct Expect {
    nargs: usize,
    argv: [usize; 3],
    nenv: usize,
    envp: [usize; 2],
    cwd: usize,
    uid: Option<u32>,
    gid: Option<u32>,
    pgroup: Option<i32>,
    stdin_pipe: bool,
    stdout_raw: Option<i32>,
    // observed
    sync_r: usize,
    sync_w: usize,
    last_pipe_r: usize,
    last_pipe_w: usize,
    exec_reached: bool,
    exec_errno: usize,
    msg_sent: bool,
    msg_errno: i32,
    parent_read_errno: usize,
    parent_read_eof: bool,
    parent_read_other: bool,
}
static mut WITH_PRE_EXEC: bool = false;
static mut NO_STDIN_PIPE: bool = false;
static mut PRE_EXEC_ERRNO: i32 = 0;
static mut EXP: Expect = Expect {
    nargs: 0, argv: [0; 3], nenv: 0, envp: [0; 2], cwd: 0, uid: None, gid: None, pgroup: None, stdin_pipe: false,
    stdout_raw: None, sync_r: 99, sync_w: 99, last_pipe_r: 99, last_pipe_w: 99, exec_reached: false, exec_errno: 0,
    msg_sent: false, msg_errno: 0, parent_read_errno: 0, parent_read_eof: false, parent_read_other: false,
};
fn exp() -> &'static mut Expect {
    unsafe { &mut *core::ptr::addr_of_mut!(EXP) }
}

/// calls issued by the child (after the fork) with this number and first argument, not failed
fn child_calls(k: &K, n: usize, a0: Option<usize>, a1: Option<usize>) -> usize {
    let mut c = 0;
    let mut seen_fork = false;
    let mut i = 0;
    while i < k.calls && i < sc::vk::LOG {
        let l = &k.log[i];
        if seen_fork && l.nr == n && !l.failed && a0.map_or(true, |x| x == l.a[0]) && a1.map_or(true, |x| x == l.a[1]) {
            c += 1;
        }
        if l.nr == nr::FORK {
            seen_fork = true;
        }
        i += 1;
    }
    c
}

fn hook(k: &mut K, n: usize, a: &[usize; 6]) -> Option<usize> {
    let e = exp();
    match n {
        nr::PIPE2 => {
            let r = k.alloc_fd();
            let w = k.alloc_fd();
            unsafe {
                let p = a[0] as *mut i32;
                *p = r as i32;
                *p.add(1) = w as i32;
            }
            e.last_pipe_r = r;
            e.last_pipe_w = w;
            Some(0)
        }
        nr::FORK => {
            // the pipe created last before the fork is the CLOEXEC synchronisation pipe
            e.sync_r = e.last_pipe_r;
            e.sync_w = e.last_pipe_w;
            None
        }
        nr::EXECVE => {
            assert!(k.in_child, "execve is called in the child only");
            e.exec_reached = true;
            // ---- program and argument vector exactly as configured, NULL-terminated
            assert!(a[0] == BIN.as_ptr() as usize, "exec of the requested program");
            let argv = a[1] as *const usize;
            let mut i = 0;
            while i <= e.nargs {
                assert!(unsafe { *argv.add(i) } == e.argv[i], "argv[i] is the configured argument");
                i += 1;
            }
            assert!(unsafe { *argv.add(e.nargs + 1) } == 0, "argv is NULL-terminated right after the last argument");
            // ---- environment exactly as configured
            let envp = a[2] as *const usize;
            let mut j = 0;
            while j < e.nenv {
                assert!(unsafe { *envp.add(j) } == e.envp[j], "envp[j] is the configured entry");
                j += 1;
            }
            assert!(unsafe { *envp.add(e.nenv) } == 0, "envp is NULL-terminated right after the last entry");
            // ---- working directory, ids, process group, standard streams were applied (and only if configured)
            assert!(child_calls(k, nr::CHDIR, None, None) == (e.cwd != 0) as usize, "chdir exactly when configured");
            if e.cwd != 0 {
                assert!(child_calls(k, nr::CHDIR, Some(e.cwd), None) == 1, "chdir to the configured directory");
            }
            assert!(child_calls(k, nr::SETUID, None, None) == e.uid.is_some() as usize);
            if let Some(u) = e.uid {
                assert!(child_calls(k, nr::SETUID, Some(u as usize), None) == 1, "setuid to the configured uid");
            }
            assert!(child_calls(k, nr::SETGID, None, None) == e.gid.is_some() as usize);
            if let Some(g) = e.gid {
                assert!(child_calls(k, nr::SETGID, Some(g as usize), None) == 1, "setgid to the configured gid");
            }
            assert!(child_calls(k, nr::SETPGID, None, None) == e.pgroup.is_some() as usize);
            if let Some(pg) = e.pgroup {
                assert!(child_calls(k, nr::SETPGID, Some(0), Some(pg as usize)) == 1, "setpgid(0, configured group)");
            }
            assert!(child_calls(k, nr::DUP3, None, Some(0)) == e.stdin_pipe as usize, "stdin redirected exactly when configured");
            assert!(child_calls(k, nr::DUP3, None, Some(1)) == e.stdout_raw.is_some() as usize, "stdout redirected exactly when configured");
            if let Some(fd) = e.stdout_raw {
                assert!(child_calls(k, nr::DUP3, Some(fd as usize), Some(1)) == 1, "stdout is the configured descriptor");
            }
            assert!(child_calls(k, nr::DUP3, None, Some(2)) == 0, "stderr inherited");
            let fails: bool = kani::any();
            if !fails {
                // the new program runs; this path is over
                kani::assume(false);
            }
            let en: usize = kani::any();
            kani::assume(en >= 1 && en <= 4095);
            e.exec_errno = en;
            k.last_errno = en;
            k.n_failed += 1;
            Some(err(en))
        }
        nr::WRITE if k.in_child && a[0] == e.sync_w => {
            // the child's report: errno big-endian + "NOEX"
            assert!(a[2] == 8, "the child's report is 8 bytes");
            let p = a[1] as *const u8;
            let b = unsafe { [*p, *p.add(1), *p.add(2), *p.add(3)] };
            let f = unsafe { [*p.add(4), *p.add(5), *p.add(6), *p.add(7)] };
            assert!(f == *b"NOEX", "report footer");
            e.msg_sent = true;
            e.msg_errno = i32::from_be_bytes(b);
            Some(8)
        }
        nr::EXIT | nr::EXIT_GROUP => {
            if k.in_child {
                // "if any step up to and including exec fails, the caller gets an error carrying that step's errno"
                // steps: dup2 x3, chdir, setuid, setgid, setpgid (injected failures after the fork) and execve (hook)
                let mut step_errno = e.exec_errno;
                let mut seen_fork = false;
                let mut i = 0;
                while i < k.calls && i < sc::vk::LOG {
                    let l = &k.log[i];
                    if seen_fork && l.failed && step_errno == 0
                        && (l.nr == nr::DUP3 || l.nr == nr::CHDIR || l.nr == nr::SETUID || l.nr == nr::SETGID || l.nr == nr::SETPGID) {
                        step_errno = 0usize.wrapping_sub(l.ret);
                    }
                    if l.nr == nr::FORK {
                        seen_fork = true;
                    }
                    i += 1;
                }
                let write_failed = k.count_failed(nr::WRITE) > 0;
                let pre = unsafe { PRE_EXEC_ERRNO };
                if pre != 0 && step_errno == 0 && !write_failed {
                    assert!(e.msg_sent && e.msg_errno == pre, "a failing pre-exec step is reported to the parent with its errno");
                }
                if step_errno != 0 && !write_failed {
                    assert!(e.msg_sent, "a child that failed before/at exec reports to the parent before exiting");
                    assert!(e.msg_errno == step_errno as i32, "the report carries the failing step's errno as a positive code");
                }
            }
            None
        }
        nr::READ if !k.in_child && k.forked && a[0] == e.sync_r => {
            let which: u8 = kani::any();
            match which {
                0 => {
                    e.parent_read_eof = true;
                    Some(0)
                }
                1 => {
                    assert!(a[2] >= 8);
                    let en: usize = kani::any();
                    kani::assume(en >= 1 && en <= 4095);
                    e.parent_read_errno = en;
                    let b = (en as i32).to_be_bytes();
                    let p = a[1] as *mut u8;
                    unsafe {
                        *p = b[0];
                        *p.add(1) = b[1];
                        *p.add(2) = b[2];
                        *p.add(3) = b[3];
                        *p.add(4) = b'N';
                        *p.add(5) = b'O';
                        *p.add(6) = b'E';
                        *p.add(7) = b'X';
                    }
                    Some(8)
                }
                _ => {
                    let c: usize = kani::any();
                    kani::assume(c >= 1 && c < 8);
                    e.parent_read_other = true;
                    Some(c)
                }
            }
        }
        _ => None,
    }
}

/// builds the command from a symbolic configuration, records the expectation, runs spawn()
fn run_spawn(faults: u8, side: u8, level: u8) -> (tiny_std::Result<tiny_std::process::Child>, u32) {
    let k = ks();
    k.fork_force = side;
    let minimal = level == 0;
    let medium = level == 1;
    match faults {
        0 => k.model_no_faults(),
        _ => k.model_with_one_fault(),
    }
    k.hook = Some(hook);
    k.max_calls = 22;
    // a descriptor the caller hands over as the child's stdout
    let use_raw: bool = if minimal || medium { false } else { kani::any() };
    let mut owned_before = 0u32;
    if use_raw {
        let fd = k.alloc_fd();
        owned_before = 1 << fd;
        exp().stdout_raw = Some(fd as i32);
    }
    k.begin_operation();
    let e = exp();
    let mut cmd = Command::new(us(&BIN)).unwrap();
    e.argv[0] = BIN.as_ptr() as usize;
    let nargs: usize = if minimal { 0 } else { kani::any() };
    kani::assume(nargs <= 2 && (!medium || nargs <= 1));
    e.nargs = nargs;
    if nargs >= 1 {
        cmd.arg(us(&A1));
        e.argv[1] = A1.as_ptr() as usize;
    }
    if nargs >= 2 {
        cmd.arg(us(&A2));
        e.argv[2] = A2.as_ptr() as usize;
    }
    let nenv: usize = if minimal { 0 } else { kani::any() };
    kani::assume(nenv <= 2 && (!medium || nenv <= 1));
    e.nenv = nenv;
    if nenv >= 1 {
        let v = UnixString::try_from_bytes(b"A=1").unwrap();
        e.envp[0] = v.as_ptr() as usize;
        cmd.env(v);
    }
    if nenv >= 2 {
        let v = UnixString::try_from_bytes(b"B=").unwrap();
        e.envp[1] = v.as_ptr() as usize;
        cmd.env(v);
    }
    if !minimal && kani::any() {
        cmd.cwd(us(&CWD));
        e.cwd = CWD.as_ptr() as usize;
    }
    if !minimal && kani::any() {
        let u: u32 = kani::any();
        cmd.uid(u);
        e.uid = Some(u);
    }
    if !minimal && !medium && kani::any() {
        let g: u32 = kani::any();
        cmd.gid(g);
        e.gid = Some(g);
    }
    if !minimal && !medium && kani::any() {
        let pg: i32 = kani::any();
        kani::assume(pg >= 0);
        cmd.pgroup(pg);
        e.pgroup = Some(pg);
    }
    if !minimal && !unsafe { NO_STDIN_PIPE } && kani::any() {
        cmd.stdin(Stdio::MakePipe);
        e.stdin_pipe = true;
    }
    if let Some(fd) = e.stdout_raw {
        cmd.stdout(Stdio::RawFd(Fd::try_new(fd).unwrap()));
    }
    if unsafe { WITH_PRE_EXEC } {
        // a pre-exec step supplied by the caller: succeeds or fails with an arbitrary errno (in the child)
        let fail: bool = kani::any();
        let code: i32 = kani::any();
        kani::assume(code >= 1 && code <= 4095);
        if fail {
            e.exec_errno = 0;
            unsafe { PRE_EXEC_ERRNO = code };
        }
        unsafe {
            cmd.pre_exec(move || {
                if fail {
                    Err(tiny_std::Error::Os { msg: "pre-exec step failed", code: rusl::error::Errno::new(code) })
                } else {
                    Ok(())
                }
            });
        }
    }
    let r = cmd.spawn();
    core::mem::forget(cmd);
    (r, owned_before)
}

// @ob C13 quick spawn_child_side fns=Command::new,Command::arg,Command::env,Command::cwd,Command::uid,Command::gid,Command::pgroup,Command::stdin,Command::stdout,Command::spawn,do_spawn,setup_io,Stdio::to_child_stdio,rusl::process::fork,rusl::process::execve,rusl::unistd::dup3 bound="the path that continues as the forked child: 0..=1 args, 0..=1 env entries, cwd/uid configured or not, stdin inherited (thorough variant: stdin pipe, 0..=2 args/env, gid, pgroup, stdout descriptor); one failing call at any index; execve fails (any errno) or succeeds" timeout=2400 mem=24
#[kani::proof]
#[kani::unwind(24)]
fn spawn_child_side() {
    // (the stdin pipe option is exercised on the child side by spawn_child_side_full and on the parent side in quick)
    unsafe { NO_STDIN_PIPE = true };
    let (_r, _) = run_spawn(1, 1, 1);
    let k = ks();
    let e = exp();
    kani::cover!(!k.forked, "a call before fork failed: nothing was forked");
    // (1) control returns from spawn() only in the caller: reaching this line after a fork means the child returned
    assert!(!k.forked, "spawn() returned in the forked child: the child keeps running the caller's code");
    let _ = e;
}
// @ob C13 thorough spawn_child_side_full fns=Command::new,Command::arg,Command::env,Command::cwd,Command::uid,Command::gid,Command::pgroup,Command::stdin,Command::stdout,Command::spawn,do_spawn,setup_io,Stdio::to_child_stdio,rusl::process::fork,rusl::process::execve,rusl::unistd::dup3 bound="the path that continues as the forked child: 0..=2 args, 0..=2 env entries, cwd/uid/gid/pgroup each configured or not, stdin inherit|pipe, stdout inherit|descriptor; one failing call at any index; execve fails (any errno) or succeeds" timeout=3400 mem=40
#[kani::proof]
#[kani::unwind(24)]
fn spawn_child_side_full() {
    let (_r, _) = run_spawn(1, 1, 2);
    let k = ks();
    let e = exp();
    kani::cover!(!k.forked, "a call before fork failed: nothing was forked");
    // (1) control returns from spawn() only in the caller: reaching this line after a fork means the child returned
    assert!(!k.forked, "spawn() returned in the forked child: the child keeps running the caller's code");
    let _ = e;
}

// @ob C13 quick spawn_parent_side fns=Command::spawn,do_spawn,Process::wait bound="the path that continues as the parent: same configurations; one failing call at any index; pipe read: EOF | 8-byte report (any errno) | short | error" timeout=2400 mem=24
#[kani::proof]
#[kani::unwind(24)]
fn spawn_parent_side() {
    let (r, _) = run_spawn(1, 2, 1);
    let k = ks();
    let e = exp();
    assert!(!k.in_child);
    kani::cover!(r.is_ok(), "parent: Ok(child)");
    kani::cover!(e.parent_read_errno != 0 && k.n_failed == 0, "parent: child reported an errno");
    kani::cover!(k.forked && k.n_failed == 1, "a call failed after the fork (parent side)");
    match r {
        Ok(c) => {
            assert!(k.forked, "Ok only after a successful fork");
            assert!(e.parent_read_eof, "Ok only once the CLOEXEC pipe reported EOF (exec happened)");
            assert!(c.get_pid() == 4242, "the child handle carries the pid fork returned");
            core::mem::forget(c);
        }
        Err(er) => {
            if e.parent_read_errno != 0 && k.n_failed == 0 {
                assert!(er.matches_errno(rusl::error::Errno::new(e.parent_read_errno as i32)),
                        "the error carries the errno the child reported (positive)");
                assert!(k.waited >= 1, "the failed child was waited for");
            }
        }
    }
}
// @ob C13 thorough spawn_parent_side_full fns=Command::spawn,do_spawn,Process::wait bound="the path that continues as the parent: same configurations; one failing call at any index; pipe read: EOF | 8-byte report (any errno) | short | error" timeout=3400 mem=40
#[kani::proof]
#[kani::unwind(24)]
fn spawn_parent_side_full() {
    let (r, _) = run_spawn(1, 2, 2);
    let k = ks();
    let e = exp();
    assert!(!k.in_child);
    kani::cover!(r.is_ok(), "parent: Ok(child)");
    kani::cover!(e.parent_read_errno != 0 && k.n_failed == 0, "parent: child reported an errno");
    kani::cover!(k.forked && k.n_failed == 1, "a call failed after the fork (parent side)");
    match r {
        Ok(c) => {
            assert!(k.forked, "Ok only after a successful fork");
            assert!(e.parent_read_eof, "Ok only once the CLOEXEC pipe reported EOF (exec happened)");
            assert!(c.get_pid() == 4242, "the child handle carries the pid fork returned");
            core::mem::forget(c);
        }
        Err(er) => {
            if e.parent_read_errno != 0 && k.n_failed == 0 {
                assert!(er.matches_errno(rusl::error::Errno::new(e.parent_read_errno as i32)),
                        "the error carries the errno the child reported (positive)");
                assert!(k.waited >= 1, "the failed child was waited for");
            }
        }
    }
}

// @ob C12 quick spawn_parent_descriptors fns=Command::spawn,do_spawn,setup_io bound="as spawn_parent_side: descriptor table after spawn() returns in the parent" timeout=2400 mem=24
#[kani::proof]
#[kani::unwind(24)]
fn spawn_parent_descriptors() {
    let (r, handed_over) = run_spawn(1, 2, 1);
    let k = ks();
    let mut owned = 0u32;
    if let Ok(c) = r {
        if let Some(p) = &c.stdin {
            owned |= 1 << p.borrow_fd_raw();
        }
        core::mem::forget(c);
    }
    kani::cover!(k.forked && owned != 0, "parent keeps its end of the stdin pipe");
    kani::cover!(!k.forked && k.n_failed == 1, "fork or an earlier call failed");
    assert!(k.bad_close == 0, "no descriptor is closed twice");
    // the descriptor handed over as Stdio::RawFd may or may not have been consumed (closed) by the operation, depending on
    // how far it got: it is left out of the comparison
    assert!(k.fd_open & !(k.fd_initial | owned) == 0, "nothing spawn opened stays open in the parent (leak)");
    assert!(k.fd_open | handed_over == k.fd_initial | owned | handed_over,
            "descriptor table changed only by the descriptors handed to the caller");
}
// @ob C12 thorough spawn_parent_descriptors_full fns=Command::spawn,do_spawn,setup_io bound="as spawn_parent_side: descriptor table after spawn() returns in the parent" timeout=3400 mem=40
#[kani::proof]
#[kani::unwind(24)]
fn spawn_parent_descriptors_full() {
    let (r, handed_over) = run_spawn(1, 2, 2);
    let k = ks();
    let mut owned = 0u32;
    if let Ok(c) = r {
        if let Some(p) = &c.stdin {
            owned |= 1 << p.borrow_fd_raw();
        }
        core::mem::forget(c);
    }
    kani::cover!(k.forked && owned != 0, "parent keeps its end of the stdin pipe");
    kani::cover!(!k.forked && k.n_failed == 1, "fork or an earlier call failed");
    assert!(k.bad_close == 0, "no descriptor is closed twice");
    // the descriptor handed over as Stdio::RawFd may or may not have been consumed (closed) by the operation, depending on
    // how far it got: it is left out of the comparison
    assert!(k.fd_open & !(k.fd_initial | owned) == 0, "nothing spawn opened stays open in the parent (leak)");
    assert!(k.fd_open | handed_over == k.fd_initial | owned | handed_over,
            "descriptor table changed only by the descriptors handed to the caller");
}

trait BorrowRaw {
    fn borrow_fd_raw(&self) -> i32;
}
impl BorrowRaw for tiny_std::process::AnonPipe {
    fn borrow_fd_raw(&self) -> i32 {
        use tiny_std::unix::fd::AsRawFd;
        self.borrow_fd().as_raw_fd().value()
    }
}

// @ob C13 quick child_wait fns=Child::wait,Child::try_wait,Process::wait,Process::try_wait,rusl::process::wait_pid bound="any sequence of up to 3 calls from {try_wait, wait}; a WNOHANG poll may find the child still running; exit status delivered by the kernel: any i32; wait4 may fail once" timeout=1500
#[kani::proof]
#[kani::unwind(24)]
fn child_wait() {
    let (r, _) = run_spawn(0, 2, 0);
    let k = ks();
    let Ok(mut c) = r else { return };
    k.begin_operation();
    let at: u32 = kani::any();
    kani::assume(at <= 3);
    k.fail_mask = if at == 3 { 0 } else { 1 << at };
    let mut reported: Option<i32> = None;
    let mut i = 0;
    while i < 3 {
        let use_try: bool = kani::any();
        if use_try {
            match c.try_wait() {
                Ok(Some(st)) => {
                    assert!(k.reaped == 1, "an exit status is reported only after the kernel reaped the child");
                    assert!(st == k.reap_status, "try_wait reports the status the kernel delivered");
                    assert!(reported.is_none() || reported == Some(st), "the same status every time");
                    reported = Some(st);
                }
                Ok(None) => assert!(k.reaped == 0, "None only while the child has not been reaped"),
                Err(_) => {}
            }
        } else {
            match c.wait() {
                Ok(st) => {
                    assert!(k.reaped == 1, "wait returns a status only once the kernel reaped the child (it must not return a cached value that no wait4 produced)");
                    assert!(st == k.reap_status, "wait reports the status the kernel delivered");
                    assert!(reported.is_none() || reported == Some(st), "the same status every time");
                    reported = Some(st);
                }
                Err(_) => {}
            }
        }
        i += 1;
    }
    kani::cover!(reported.is_some() && k.waited >= 2, "a poll found the child running, a later call reaped it");
    kani::cover!(k.n_failed == 1, "a wait4 call failed");
    assert!(k.reaped <= 1);
    core::mem::forget(c);
}

// @ob C13 quick spawn_child_pre_exec fns=Command::pre_exec,Command::spawn,do_spawn bound="the path that continues as the forked child, no arguments, one caller-supplied pre-exec step that succeeds or fails with any errno; no injected system-call failure; the final assertions sit in the kernel stand-in at the child's exit (nothing after spawn() is reachable in the child when the code is right)" timeout=1800 mem=12 nocover=1
#[kani::proof]
#[kani::unwind(24)]
fn spawn_child_pre_exec() {
    unsafe { WITH_PRE_EXEC = true };
    let (_r, _) = run_spawn(0, 1, 0);
    let k = ks();
    assert!(!k.forked, "spawn() returned in the forked child: the child keeps running the caller's code");
}
