//! C14 — file-system post-conditions above a tiny model file system inside the kernel hook.
use rusl::string::unix_str::UnixStr;
use sc::nr;
use sc::vk::{err, ks, K};
use tiny_std::fs::{Directory, File, OpenOptions};

const ENOENT: usize = 2;
const EEXIST: usize = 17;

// =================================================================== (a) create_dir_all
// The model knows one path P (the argument). Every directory create_dir_all may legitimately touch is a component
// prefix of P; the state is the set of existing prefixes (bit d = the first d+1 components exist). mkdir of anything
// that is not a component prefix of P is recorded as a foreign creation.
struct Tree {
    path: &'static [u8],   // without terminator
    ncomp: usize,
    exists: u8,
    created_foreign: bool,
    mkdirs: u32,
}
static mut TREE: Tree = Tree { path: b"", ncomp: 0, exists: 0, created_foreign: false, mkdirs: 0 };
fn tree() -> &'static mut Tree {
    unsafe { &mut *core::ptr::addr_of_mut!(TREE) }
}

/// number of components of `s` if s (ignoring repeated / trailing separators) is a component prefix of `p`, else None
fn prefix_depth(p: &[u8], s: &[u8]) -> Option<usize> {
    // both absolute or both relative
    let pa = !p.is_empty() && p[0] == b'/';
    let sa = !s.is_empty() && s[0] == b'/';
    if pa != sa {
        return None;
    }
    let (mut i, mut j, mut depth) = (0usize, 0usize, 0usize);
    loop {
        while i < p.len() && p[i] == b'/' {
            i += 1;
        }
        while j < s.len() && s[j] == b'/' {
            j += 1;
        }
        if j >= s.len() {
            return if depth > 0 { Some(depth) } else { None };
        }
        if i >= p.len() {
            return None;
        }
        // compare one component
        while i < p.len() && p[i] != b'/' && j < s.len() && s[j] != b'/' {
            if p[i] != s[j] {
                return None;
            }
            i += 1;
            j += 1;
        }
        let p_end = i >= p.len() || p[i] == b'/';
        let s_end = j >= s.len() || s[j] == b'/';
        if !(p_end && s_end) {
            return None;
        }
        depth += 1;
    }
}

fn count_components(p: &[u8]) -> usize {
    let mut n = 0;
    let mut i = 0;
    while i < p.len() {
        while i < p.len() && p[i] == b'/' {
            i += 1;
        }
        if i < p.len() {
            n += 1;
        }
        while i < p.len() && p[i] != b'/' {
            i += 1;
        }
    }
    n
}

fn mkdir_hook(k: &mut K, n: usize, a: &[usize; 6]) -> Option<usize> {
    if n != nr::MKDIRAT && n != nr::MKDIR {
        return None;
    }
    let t = tree();
    t.mkdirs += 1;
    let ptr = (if n == nr::MKDIRAT { a[1] } else { a[0] }) as *const u8;
    let mut len = 0;
    while unsafe { *ptr.add(len) } != 0 {
        len += 1;
        assert!(len <= 16, "the path handed to mkdir is NUL-terminated within the original path");
    }
    let s = unsafe { core::slice::from_raw_parts(ptr, len) };
    match prefix_depth(t.path, s) {
        None => {
            t.created_foreign = true;
            Some(err(ENOENT))
        }
        Some(d) => {
            let bit = 1u8 << (d - 1);
            let parent_ok = d == 1 || t.exists & (bit >> 1) != 0;
            if t.exists & bit != 0 {
                Some(err(EEXIST))
            } else if !parent_ok {
                Some(err(ENOENT))
            } else {
                t.exists |= bit;
                Some(0)
            }
        }
    }
}

fn run_create_dir_all(path: &'static [u8]) {
    let k = ks();
    k.model_no_faults();
    k.hook = Some(mkdir_hook);
    k.max_calls = 10;
    let n = count_components(&path[..path.len() - 1]);
    let t = tree();
    t.path = &path[..path.len() - 1];
    t.ncomp = n;
    // arbitrary prior state: any prefix-closed set of existing ancestors (possibly everything, possibly nothing)
    let have: u8 = kani::any();
    kani::assume(have as usize <= n);
    t.exists = ((1u16 << have) - 1) as u8;
    let before = t.exists;
    let p = unsafe { UnixStr::from_bytes_unchecked(path) };
    let r = tiny_std::fs::create_dir_all(p);
    kani::cover!(have == 0, "nothing existed");
    kani::cover!(have as usize + 1 == n && n >= 1, "everything but the leaf existed");
    kani::cover!(have as usize == n, "everything existed already");
    match r {
        Ok(()) => {
            assert!(t.exists == ((1u16 << n) - 1) as u8, "after Ok the directory and all its ancestors exist");
        }
        Err(_) => assert!(false, "no system call failed for a reason other than 'exists'/'parent missing': create_dir_all must succeed"),
    }
    assert!(t.exists & before == before, "existing directories are untouched");
    assert!(!t.created_foreign, "nothing outside the requested path is created");
}

macro_rules! c14_mkdir {
    ($name:ident, $path:expr) => {
        #[kani::proof]
        #[kani::unwind(20)]
        fn $name() {
            static P: &[u8] = $path;
            run_create_dir_all(P);
        }
    };
}
// @ob C14 quick mkdir_all_single fns=fs::create_dir_all,write_all_sub_paths bound="path 'a' (one relative component); any prior state" timeout=900 nocover=1
c14_mkdir!(mkdir_all_single, b"a\0");
// @ob C14 quick mkdir_all_abs_single fns=fs::create_dir_all,write_all_sub_paths bound="path '/a'; any prior state" timeout=900 nocover=1
c14_mkdir!(mkdir_all_abs_single, b"/a\0");
// @ob C14 quick mkdir_all_two fns=fs::create_dir_all,write_all_sub_paths bound="path 'a/b'; any prefix-closed prior state" timeout=900
c14_mkdir!(mkdir_all_two, b"a/b\0");
// @ob C14 quick mkdir_all_three fns=fs::create_dir_all,write_all_sub_paths bound="path 'ab/c/d'; any prefix-closed prior state" timeout=900
c14_mkdir!(mkdir_all_three, b"ab/c/d\0");
// @ob C14 quick mkdir_all_trailing fns=fs::create_dir_all,write_all_sub_paths bound="path 'a/b/' (trailing separator); any prior state" timeout=900
c14_mkdir!(mkdir_all_trailing, b"a/b/\0");
// @ob C14 quick mkdir_all_abs_three fns=fs::create_dir_all,write_all_sub_paths bound="path '/a/b/c'; any prior state" timeout=900
c14_mkdir!(mkdir_all_abs_three, b"/a/b/c\0");
// @ob C14 thorough mkdir_all_double_sep fns=fs::create_dir_all,write_all_sub_paths bound="path 'a//b' (repeated separator); any prior state" timeout=1500
c14_mkdir!(mkdir_all_double_sep, b"a//b\0");
// @ob C14 thorough mkdir_all_four fns=fs::create_dir_all,write_all_sub_paths bound="path 'a/b/c/d'; any prior state" timeout=1500
c14_mkdir!(mkdir_all_four, b"a/b/c/d\0");

// =================================================================== (b) File::copy
struct CopyModel {
    src_len: u64,
    dst_len: i64,      // -1: absent
    dst_prefix_ok: u64, // dst[0..dst_prefix_ok) == src[0..dst_prefix_ok)
    dst_has_foreign_tail: bool,
    src_fd: usize,
    dst_fd: usize,
    opens: u32,
}
static mut CM: CopyModel = CopyModel { src_len: 0, dst_len: -1, dst_prefix_ok: 0, dst_has_foreign_tail: false, src_fd: 99, dst_fd: 99, opens: 0 };
fn cm() -> &'static mut CopyModel {
    unsafe { &mut *core::ptr::addr_of_mut!(CM) }
}
const O_CREAT: usize = 0o100;
const O_TRUNC: usize = 0o1000;

fn copy_hook(k: &mut K, n: usize, a: &[usize; 6]) -> Option<usize> {
    let m = cm();
    match n {
        nr::OPENAT | nr::OPEN => {
            let flags = if n == nr::OPENAT { a[2] } else { a[1] };
            let fd = k.alloc_fd();
            m.opens += 1;
            if m.opens == 1 {
                m.src_fd = fd;
            } else {
                m.dst_fd = fd;
                if m.dst_len < 0 {
                    if flags & O_CREAT == 0 {
                        let _ = k.close_fd(fd);
                        return Some(err(ENOENT));
                    }
                    m.dst_len = 0;
                }
                if flags & O_TRUNC != 0 {
                    m.dst_len = 0;
                }
                // whatever the destination held before is not the source's content
                m.dst_prefix_ok = 0;
                m.dst_has_foreign_tail = m.dst_len > 0;
            }
            Some(fd)
        }
        nr::NEWFSTATAT | nr::FSTAT => {
            // struct stat (x86_64): st_mode u32 @24, st_size i64 @48
            let p = (if n == nr::NEWFSTATAT { a[2] } else { a[1] }) as *mut u8;
            unsafe {
                *(p.add(24) as *mut u32) = 0o100644;
                *(p.add(48) as *mut i64) = m.src_len as i64;
            }
            Some(0)
        }
        nr::COPY_FILE_RANGE => {
            let (off_in, off_out, len) = (a[1] as u64, a[3] as u64, a[4] as u64);
            let avail = if off_in >= m.src_len { 0 } else { m.src_len - off_in };
            let c: u64 = kani::any();
            kani::assume(c <= len && c <= avail && (c > 0 || avail == 0 || len == 0));
            if c > 0 {
                if off_in == off_out && off_out == m.dst_prefix_ok {
                    m.dst_prefix_ok += c;
                }
                if (off_out + c) as i64 > m.dst_len {
                    m.dst_len = (off_out + c) as i64;
                }
                if m.dst_prefix_ok as i64 >= m.dst_len {
                    m.dst_has_foreign_tail = false;
                }
            }
            Some(c as usize)
        }
        _ => None,
    }
}

static SRCP: [u8; 3] = *b"/s\0";
static DSTP: [u8; 3] = *b"/d\0";
// @ob C14 quick file_copy_content fns=File::copy,fs::copy_file,rusl::unistd::copy_file_range bound="source length 0..=6; destination absent or holding 0..=8 other bytes; copy_file_range moves any 1..=remaining bytes per call (short copies)" timeout=1200 stubs="stat_fd -> statat(fd, \"\")"
#[kani::proof]
#[kani::unwind(10)]
#[kani::stub(rusl::unistd::stat_fd, crate::c12::stub_stat_fd)]
fn file_copy_content() {
    let k = ks();
    k.model_no_faults();
    k.hook = Some(copy_hook);
    k.max_calls = 12;
    let m = cm();
    let sl: u64 = kani::any();
    let dl: i64 = kani::any();
    kani::assume(sl <= 6 && dl >= -1 && dl <= 8);
    m.src_len = sl;
    m.dst_len = dl;
    kani::cover!(dl > sl as i64, "destination held more than the source");
    kani::cover!(dl == -1, "destination absent");
    kani::cover!(sl == 0, "empty source");
    let r = tiny_std::fs::copy_file(unsafe { UnixStr::from_bytes_unchecked(&SRCP) }, unsafe { UnixStr::from_bytes_unchecked(&DSTP) });
    match r {
        Ok(f) => {
            assert!(m.dst_len == sl as i64, "after copy the destination has exactly the source's length (whatever it held before)");
            assert!(m.dst_prefix_ok == sl && !m.dst_has_foreign_tail, "after copy the destination's content equals the source's");
            core::mem::forget(f);
        }
        Err(_) => assert!(false, "no system call failed: copy must succeed"),
    }
}

// =================================================================== (f) OpenOptions -> open(2) flags
const O_WRONLY: usize = 1;
const O_RDWR: usize = 2;
const O_EXCL: usize = 0o200;
const O_APPEND: usize = 0o2000;
const O_CLOEXEC: usize = 0o2000000;
// @ob C14 quick open_options_flags fns=OpenOptions::open,OpenOptions::get_access_mode,OpenOptions::get_creation_mode,File::open_with_options bound="all 2^6 combinations of read/write/append/truncate/create/create_new" timeout=900
#[kani::proof]
#[kani::unwind(4)]
fn open_options_flags() {
    let k = ks();
    k.model_no_faults();
    let (r, w, a, t, c, cn): (bool, bool, bool, bool, bool, bool) = (kani::any(), kani::any(), kani::any(), kani::any(), kani::any(), kani::any());
    let mut o = OpenOptions::new();
    o.read(r).write(w).append(a).truncate(t).create(c).create_new(cn);
    let res = o.open(unsafe { UnixStr::from_bytes_unchecked(&SRCP) });
    // the std::fs::OpenOptions semantics table
    let access = match (r, w, a) {
        (true, false, false) => Some(0),
        (false, true, false) => Some(O_WRONLY),
        (true, true, false) => Some(O_RDWR),
        (false, _, true) => Some(O_WRONLY | O_APPEND),
        (true, _, true) => Some(O_RDWR | O_APPEND),
        (false, false, false) => None,
    };
    let creation_ok = match (w, a) {
        (true, false) => true,
        (false, false) => !(t || c || cn),
        (_, true) => !(t && !cn),
    };
    let creation = match (c, t, cn) {
        (false, false, false) => 0,
        (true, false, false) => O_CREAT,
        (false, true, false) => O_TRUNC,
        (true, true, false) => O_CREAT | O_TRUNC,
        (_, _, true) => O_CREAT | O_EXCL,
    };
    kani::cover!(res.is_ok() && cn, "create_new accepted");
    kani::cover!(res.is_err(), "invalid combination rejected");
    match res {
        Ok(f) => {
            assert!(access.is_some() && creation_ok, "only valid combinations reach open(2)");
            assert!(k.calls == 1);
            let flags = k.log[0].a[2];
            assert!(flags == (O_CLOEXEC | access.unwrap() | creation), "flag word equals the std semantics table");
            core::mem::forget(f);
        }
        Err(_) => assert!(access.is_none() || !creation_ok, "a valid combination must be accepted"),
    }
}

// =================================================================== (d) directory iteration
// The kernel fills the 512-byte window with <= 3 records per call (d_ino u64, d_off i64, d_reclen u16, d_type u8, name, NUL,
// padding to 8); names are 1..=3 arbitrary non-NUL, non-'/' bytes; at most 2 non-empty refills, then 0.
struct DirScript {
    total: usize,
    given: usize,
    names: [[u8; 4]; 4],
    types: [u8; 4],
    calls: u32,
    filled_window: bool,
}
static mut ALLOW_FILL: bool = false;
static mut DS: DirScript = DirScript { total: 0, given: 0, names: [[0; 4]; 4], types: [0; 4], calls: 0, filled_window: false };
fn ds() -> &'static mut DirScript {
    unsafe { &mut *core::ptr::addr_of_mut!(DS) }
}
fn dents_hook(_k: &mut K, n: usize, a: &[usize; 6]) -> Option<usize> {
    if n != nr::GETDENTS64 {
        return None;
    }
    let d = ds();
    d.calls += 1;
    let buf = a[1] as *mut u8;
    let cap = a[2];
    let remaining = d.total - d.given;
    let batch: usize = kani::any();
    kani::assume(batch <= remaining && batch <= 3 && (batch > 0 || remaining == 0));
    let mut off = 0usize;
    let mut i = 0;
    while i < batch {
        let idx = d.given + i;
        let nlen = {
            let mut l = 0;
            while l < 4 && d.names[idx][l] != 0 {
                l += 1;
            }
            l
        };
        let mut reclen = (19 + nlen + 1 + 7) & !7;
        // d_reclen is authoritative and may include padding: the last record of a batch may extend to the very end of
        // the caller's window (a batch that fills the 512-byte buffer exactly)
        if i + 1 == batch {
            let fill_window: bool = kani::any();
            if fill_window && unsafe { ALLOW_FILL } {
                reclen = cap - off;
                d.filled_window = true;
            }
        }
        assert!(off + reclen <= cap, "the kernel never writes past the supplied window");
        unsafe {
            *(buf.add(off) as *mut u64) = 100 + idx as u64;
            *(buf.add(off + 8) as *mut i64) = idx as i64 + 1;
            *(buf.add(off + 16) as *mut u16) = reclen as u16;
            *buf.add(off + 18) = d.types[idx];
            let mut j = 0;
            while j < nlen {
                *buf.add(off + 19 + j) = d.names[idx][j];
                j += 1;
            }
            *buf.add(off + 19 + nlen) = 0;
        }
        off += reclen;
        i += 1;
    }
    d.given += batch;
    Some(off)
}
// @ob C14 quick read_dir_iteration fns=Directory::read,ReadDir::next,Dirent::try_from_bytes,DirEntry::file_unix_name,DirEntry::file_type,DirEntry::is_relative_reference bound="0..=3 entries with names of 1..=3 arbitrary bytes and arbitrary d_type, delivered in batches of <=3 per getdents64 call" timeout=1500
#[kani::proof]
#[kani::unwind(10)]
fn read_dir_iteration() {
    read_dir_iteration_n(3, false)
}
// @ob C14 thorough read_dir_window_fill fns=ReadDir::next,Dirent::try_from_bytes bound="0..=1 entry whose record may extend to the very end of the 512-byte window (2 entries: 635 s, moved to thorough)" timeout=1500
#[kani::proof]
#[kani::unwind(10)]
fn read_dir_window_fill() {
    read_dir_iteration_n(1, true)
}
// @ob C14 thorough read_dir_iteration_4 fns=Directory::read,ReadDir::next,Dirent::try_from_bytes bound="0..=4 entries, window-filling batches allowed" timeout=3400
#[kani::proof]
#[kani::unwind(10)]
fn read_dir_iteration_4() {
    read_dir_iteration_n(4, true)
}
fn read_dir_iteration_n(max_total: usize, allow_fill: bool) {
    unsafe { ALLOW_FILL = allow_fill };
    let k = ks();
    k.model_no_faults();
    k.hook = Some(dents_hook);
    k.max_calls = 8;
    k.fd_open |= 1 << 9;
    let d = ds();
    let total: usize = kani::any();
    kani::assume(total <= max_total);
    d.total = total;
    let mut i = 0;
    while i < 4 {
        let nm: [u8; 4] = kani::any();
        let l: usize = kani::any();
        kani::assume(l >= 1 && l <= 3);
        let mut j = 0;
        while j < 4 {
            if j < l {
                kani::assume(nm[j] != 0 && nm[j] != b'/');
            }
            j += 1;
        }
        d.names[i] = nm;
        d.names[i][l] = 0;
        if l < 3 {
            d.names[i][l + 1] = 0;
        }
        d.types[i] = kani::any();
        i += 1;
    }
    let dir: Directory = unsafe { core::mem::transmute::<i32, Directory>(9) };
    let mut seen = 0usize;
    for ent in dir.read() {
        let ent = ent.expect("no getdents call fails in this script");
        assert!(seen < total, "no entry is yielded that the kernel did not deliver (exactly once each)");
        let name = ent.file_unix_name().expect("names are NUL-terminated");
        let s = name.as_slice();
        let mut l = 0;
        while d.names[seen][l] != 0 {
            l += 1;
        }
        assert!(s.len() == l + 1 && s[l] == 0, "exact name length, NUL-terminated");
        let j: usize = kani::any();
        kani::assume(j < l);
        assert!(s[j] == d.names[seen][j], "exact name bytes, in delivery order");
        let ty = ent.file_type();
        assert!((ty == tiny_std::fs::FileType::Directory) == (d.types[seen] == 4), "d_type DT_DIR <-> Directory");
        assert!((ty == tiny_std::fs::FileType::RegularFile) == (d.types[seen] == 8), "d_type DT_REG <-> RegularFile");
        assert!((ty == tiny_std::fs::FileType::Symlink) == (d.types[seen] == 10), "d_type DT_LNK <-> Symlink");
        seen += 1;
    }
    kani::cover!(total == max_total && d.calls >= 2, "the largest number of entries, and the end-of-directory call");
    kani::cover!(total == 0, "empty directory");
    kani::cover!(!allow_fill || (d.filled_window && total >= 1), "a batch that fills the 512-byte window exactly (where allowed)");
    assert!(seen == total, "iteration yields every entry exactly once and ends at EOF");
    core::mem::forget(dir);
}

// a record that ends exactly at the end of the slice it is parsed from
// @ob C14 quick dirent_exact_slice fns=Dirent::try_from_bytes bound="one record, name 1..=5 arbitrary bytes, slice of exactly d_reclen bytes (and shorter slices: None or the same record, never a read outside)" timeout=900
#[kani::proof]
#[kani::unwind(10)]
fn dirent_exact_slice() {
    let mut raw = [0u8; 32];
    let nm: [u8; 5] = kani::any();
    let l: usize = kani::any();
    kani::assume(l >= 1 && l <= 5);
    let mut j = 0;
    while j < 5 {
        if j < l {
            kani::assume(nm[j] != 0);
            raw[19 + j] = nm[j];
        }
        j += 1;
    }
    let reclen = (19 + l + 1 + 7) & !7;
    raw[16] = reclen as u8;
    raw[18] = 8;
    kani::cover!(l == 5, "name of 5 bytes: record of 32 bytes");
    kani::cover!(l == 4, "name of 4 bytes: record of 24 bytes with no padding byte after the terminator");
    let de = unsafe { rusl::platform::Dirent::try_from_bytes(&raw[..reclen]) };
    let de = de.expect("a complete record that ends exactly at the end of the buffer is parsed");
    assert!(de.d_reclen as usize == reclen);
    let i: usize = kani::any();
    kani::assume(i < l);
    assert!(de.d_name[i] == nm[i] && de.d_name[l] == 0, "exact name");
}
