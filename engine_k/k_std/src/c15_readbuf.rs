//! C15 (ReadBuf cursor arithmetic): the repository's io/read_buf.rs compiled inside a wrapper module so that the
//! crate-private type can be driven directly.
#![allow(dead_code)]
include!("/repo/tiny-std/src/io/read_buf.rs");

#[cfg(kani)]
pub mod harness {
    use super::*;
    use core::mem::MaybeUninit;

    // @ob C15 quick readbuf_cursors mod=c15_readbuf::harness fns=ReadBuf::uninit,ReadBuf::assume_init,ReadBuf::initialize_unfilled_to,ReadBuf::add_filled,ReadBuf::set_filled,ReadBuf::remaining bound="12-byte buffer, arbitrary valid cursor state (filled <= initialized <= capacity), one step of {initialize_unfilled_to n, add_filled n, assume_init n}" timeout=900
    #[kani::proof]
    #[kani::unwind(14)]
    pub fn readbuf_cursors() {
        let mut store = [MaybeUninit::<u8>::new(0xAB); 12];
        let cap: usize = kani::any();
        kani::assume(cap <= 12);
        let mut rb = ReadBuf::uninit(&mut store[..cap]);
        // arbitrary valid state reached through the API itself
        let init0: usize = kani::any();
        let fill0: usize = kani::any();
        kani::assume(init0 <= cap && fill0 <= init0);
        unsafe { rb.assume_init(init0) };
        rb.set_filled(fill0);
        assert!(rb.filled_len() == fill0 && rb.initialized_len() == init0 && rb.capacity() == cap);
        let n: usize = kani::any();
        let which: u8 = kani::any();
        kani::cover!(which == 0 && n > init0 - fill0 && n <= cap - fill0, "zeroing of not yet initialised bytes needed");
        kani::cover!(which == 1 && n > 0, "cursor advanced");
        match which {
            0 => {
                kani::assume(n <= cap - fill0); // documented precondition (asserted by the function)
                let s = rb.initialize_unfilled_to(n);
                assert!(s.len() == n, "returned slice is [filled, filled+n)");
                let i: usize = kani::any();
                kani::assume(i < n);
                if fill0 + i >= init0 {
                    assert!(s[i] == 0, "bytes that were not initialised are zeroed");
                }
                assert!(rb.filled_len() == fill0, "filled unchanged");
                assert!(rb.initialized_len() >= fill0 + n && rb.initialized_len() >= init0 && rb.initialized_len() <= cap);
            }
            1 => {
                kani::assume(n <= init0 - fill0); // precondition of add_filled (asserted by set_filled)
                rb.add_filled(n);
                assert!(rb.filled_len() == fill0 + n && rb.initialized_len() == init0);
            }
            _ => {
                kani::assume(n <= cap - fill0);
                unsafe { rb.assume_init(n) };
                assert!(rb.initialized_len() == core::cmp::max(init0, fill0 + n) && rb.filled_len() == fill0);
            }
        }
        assert!(rb.filled_len() <= rb.initialized_len() && rb.initialized_len() <= rb.capacity(), "filled <= initialized <= capacity");
        assert!(rb.remaining() == cap - rb.filled_len());
    }
}
