//! C12 — no operation leaks, double-closes or steals a descriptor, on success or failure.
//!
//! Each scenario runs a public operation of tiny-std above the symbolic kernel's descriptor table with a
//! symbolic failing call (index and errno); afterwards the open-descriptor set must be the set before the
//! operation plus exactly the descriptors owned by the returned value.
use core::time::Duration;
use rusl::platform::Fd;
use rusl::string::unix_str::UnixStr;
use sc::vk::{ks, K};
use tiny_std::fs::{Directory, File, OpenOptions};
use tiny_std::net::{Ip, SocketAddress, TcpListener, TcpStream, TcpTryConnect, UnixListener, UnixStream};
use tiny_std::unix::fd::AsRawFd;

static SHORT: [u8; 4] = *b"/a\0\0";
static LONG: [u8; 112] = {
    let mut b = [b'x'; 112];
    b[111] = 0;
    b
};
fn short() -> &'static UnixStr {
    unsafe { UnixStr::from_bytes_unchecked(&SHORT[..3]) }
}
/// 111 bytes + NUL: longer than sockaddr_un.sun_path
fn long() -> &'static UnixStr {
    unsafe { UnixStr::from_bytes_unchecked(&LONG) }
}

/// `stat_fd` passes the constant `UnixStr::EMPTY`, which Kani 0.68 cannot encode (constant fat pointer to an
/// unsized newtype). The stand-in is the same call with the empty path built at run time.
pub fn stub_stat_fd(fd: Fd) -> rusl::Result<rusl::platform::Stat> {
    static E: [u8; 1] = [0];
    rusl::unistd::statat(fd, unsafe { UnixStr::from_bytes_unchecked(&E) })
}

fn begin(faults: u8) {
    let k = ks();
    match faults {
        0 => k.model_no_faults(),
        1 => k.model_with_one_fault(),
        _ => k.model_with_two_faults(),
    }
    k.max_calls = 12;
    k.begin_operation();
}
fn bit(fd: i32) -> u32 {
    assert!(fd >= 0 && fd < 32);
    1u32 << fd
}
/// after the operation: open set == initial set + descriptors handed to the caller
fn end(owned: u32) {
    let k = ks();
    let ok = k.bad_close == 0 && k.foreign_close == 0 && k.use_after_close == 0 && k.fd_open == k.fd_initial | owned;
    if !ok {
        dump(k, owned);
    }
    kani::cover!(k.n_failed == 1, "a system call failed");
    kani::cover!(k.n_failed == 0, "no system call failed");
    assert!(k.bad_close == 0, "no descriptor is closed twice / no closed descriptor is closed");
    assert!(k.foreign_close == 0, "no descriptor the operation does not own is closed");
    assert!(k.use_after_close == 0, "no closed descriptor is used");
    assert!(k.fd_open & !(k.fd_initial | owned) == 0, "nothing the operation opened stays open (leak)");
    assert!(k.fd_open == k.fd_initial | owned, "descriptor table changed only by the descriptors handed to the caller");
}

/// printed in native replays only (Kani ignores println!): the system-call history of the counterexample
fn dump(k: &K, owned: u32) {
    println!("descriptor table: initial={:#b} now={:#b} owned-by-result={:#b} bad_close={} foreign_close={} use_after_close={}",
             k.fd_initial, k.fd_open, owned, k.bad_close, k.foreign_close, k.use_after_close);
    let mut i = 0;
    while i < k.calls && i < sc::vk::LOG {
        let c = &k.log[i];
        println!("  call {}: nr={} a0={:#x} a1={:#x} a2={:#x} -> {:#x}{}", i, c.nr, c.a[0], c.a[1], c.a[2], c.ret,
                 if c.failed { " (injected failure)" } else { "" });
        i += 1;
    }
}

macro_rules! scenario {
    ($name:ident, $faults:expr, $u:expr, $body:block) => {
        #[kani::proof]
        #[kani::unwind($u)]
        #[kani::stub(rusl::unistd::stat_fd, stub_stat_fd)]
        fn $name() {
            begin($faults);
            let owned: u32 = $body;
            end(owned);
        }
    };
}

fn own<T: AsRawFd>(r: tiny_std::Result<T>) -> u32 {
    match r {
        Ok(v) => {
            let b = bit(v.as_raw_fd().value());
            core::mem::forget(v);
            b
        }
        Err(_) => 0,
    }
}
fn raw_of<T>(v: T) -> i32 {
    // single-field newtypes around OwnedFd(Fd(i32)) without an AsRawFd impl
    assert!(core::mem::size_of::<T>() == 4);
    let fd = unsafe { core::mem::transmute_copy::<T, i32>(&v) };
    core::mem::forget(v);
    fd
}
fn own_raw<T>(r: tiny_std::Result<T>) -> u32 {
    match r {
        Ok(v) => bit(raw_of(v)),
        Err(_) => 0,
    }
}

// ---------------- files
// @ob C12 quick file_open fns=File::open,OpenOptions::open,File::open_with_options bound="one failing call (any index, any errno)" timeout=600
scenario!(file_open, 1, 4, { own(File::open(short())) });
// @ob C12 quick file_create fns=OpenOptions::open bound="one failing call; all 2^6 option combinations" timeout=600
scenario!(file_create, 1, 4, {
    let mut o = OpenOptions::new();
    o.read(kani::any()).write(kani::any()).append(kani::any()).truncate(kani::any()).create(kani::any()).create_new(kani::any());
    own(o.open(short()))
});
// @ob C12 quick file_copy fns=File::copy,fs::copy_file bound="one failing call; <=3 copy_file_range rounds" timeout=900 stubs="stat_fd -> statat(fd, \"\") (Kani cannot encode the UnixStr::EMPTY constant)"
scenario!(file_copy, 1, 14, { own(tiny_std::fs::copy_file(short(), short())) });
// @ob C12 quick fs_write fns=fs::write,Write::write_all bound="one failing call; 2-byte payload, short writes" timeout=900
scenario!(fs_write, 1, 6, {
    let _ = tiny_std::fs::write(short(), &[1u8, 2]);
    0
});
// @ob C12 quick dir_open fns=Directory::open bound="one failing call" timeout=600
scenario!(dir_open, 1, 4, { own_raw(Directory::open(short())) });
// @ob C12 quick metadata_exists fns=fs::metadata,fs::exists,fs::rename,fs::remove_file,fs::create_dir,fs::remove_dir bound="one failing call" timeout=600
scenario!(metadata_exists, 1, 4, {
    let _ = tiny_std::fs::metadata(short());
    let _ = tiny_std::fs::exists(short());
    let _ = tiny_std::fs::rename(short(), short());
    let _ = tiny_std::fs::remove_file(short());
    let _ = tiny_std::fs::create_dir(short());
    let _ = tiny_std::fs::remove_dir(short());
    0
});

// ---------------- unix sockets
// @ob C12 quick unix_connect fns=UnixStream::connect,UnixStream::do_connect,sock_nonblock_op_poll_if_not_ready bound="one failing call (incl. EAGAIN -> poll path, EINTR in ppoll); short path" timeout=900
scenario!(unix_connect, 1, 5, { own(UnixStream::connect(short())) });
// @ob C12 quick unix_connect_long_path fns=UnixStream::connect,SocketAddressUnix::try_from_unix bound="111-byte path (address conversion fails after socket() succeeded); one failing call" timeout=1200 nocover=1
scenario!(unix_connect_long_path, 1, 115, { own(UnixStream::connect(long())) });
// @ob C12 quick unix_try_connect fns=UnixStream::try_connect bound="one failing call; short path" timeout=900
scenario!(unix_try_connect, 1, 5, {
    match UnixStream::try_connect(short()) {
        Ok(Some(s)) => own(Ok(s)),
        _ => 0,
    }
});
// @ob C12 quick unix_try_connect_long_path fns=UnixStream::try_connect bound="111-byte path; one failing call" timeout=1200 nocover=1
scenario!(unix_try_connect_long_path, 1, 115, {
    match UnixStream::try_connect(long()) {
        Ok(Some(s)) => own(Ok(s)),
        _ => 0,
    }
});
// @ob C12 quick unix_bind fns=UnixListener::bind bound="one failing call; short path" timeout=900
scenario!(unix_bind, 1, 5, { own_raw(UnixListener::bind(short())) });
// @ob C12 quick unix_bind_long_path fns=UnixListener::bind bound="111-byte path; one failing call" timeout=1200 nocover=1
scenario!(unix_bind_long_path, 1, 115, { own_raw(UnixListener::bind(long())) });
// @ob C12 quick unix_accept fns=UnixListener::accept,UnixListener::try_accept,UnixListener::accept_with_timeout bound="listener pre-existing; one failing call; blocking, timed and try variants" timeout=900
scenario!(unix_accept, 1, 5, {
    let k = ks();
    let saved = k.fail_mask;
    k.fail_mask = 0;
    let mut l = UnixListener::bind(short()).unwrap();
    k.fail_mask = saved;
    k.begin_operation();
    let which: u8 = kani::any();
    let r = match which {
        0 => own(l.accept()),
        1 => own(l.accept_with_timeout(Duration::new(1, 0))),
        _ => match l.try_accept() {
            Ok(Some(s)) => own(Ok(s)),
            _ => 0,
        },
    };
    core::mem::forget(l);
    r
});

// ---------------- tcp
fn addr() -> SocketAddress {
    SocketAddress::new(Ip::V4([127, 0, 0, 1]), kani::any())
}
// @ob C12 quick tcp_connect fns=TcpStream::connect,TcpStream::connect_with_timeout,TcpStream::do_connect bound="one failing call (incl. EINPROGRESS -> poll path)" timeout=900
scenario!(tcp_connect, 1, 5, {
    if kani::any() { own(TcpStream::connect(&addr())) } else { own(TcpStream::connect_with_timeout(&addr(), Duration::new(2, 5))) }
});
// @ob C12 quick tcp_try_connect fns=TcpStream::try_connect,TcpStreamInProgress::try_connect,TcpStreamInProgress::connect_blocking bound="one failing call; Connected / InProgress continued by try_connect or connect_blocking" timeout=900
scenario!(tcp_try_connect, 1, 5, {
    match TcpStream::try_connect(&addr()) {
        Ok(TcpTryConnect::Connected(s)) => own(Ok(s)),
        Ok(TcpTryConnect::InProgress(p)) => {
            if kani::any() {
                match p.try_connect() {
                    Ok(TcpTryConnect::Connected(s)) => own(Ok(s)),
                    Ok(TcpTryConnect::InProgress(p2)) => bit(raw_of_inprogress(p2)),
                    Err(_) => 0,
                }
            } else {
                own(p.connect_blocking())
            }
        }
        Err(_) => 0,
    }
});
fn raw_of_inprogress(p: tiny_std::net::TcpStreamInProgress) -> i32 {
    // (OwnedFd, SocketAddressInet): the descriptor is the first 4 bytes or follows the 16-byte address;
    // read it through Debug-free means: drop it and observe which descriptor the kernel sees closed
    let k = ks();
    let before = k.fd_open;
    drop(p);
    let closed = before & !k.fd_open;
    assert!(closed.count_ones() == 1, "an in-progress stream owns exactly one descriptor");
    k.fd_open = before; // keep it counted as owned-and-open for the final comparison
    closed.trailing_zeros() as i32
}
// @ob C12 quick tcp_bind fns=TcpListener::bind bound="one failing call" timeout=900
scenario!(tcp_bind, 1, 5, { own_raw(TcpListener::bind(&addr())) });
// @ob C12 quick tcp_accept fns=TcpListener::accept,TcpListener::try_accept,TcpListener::accept_with_timeout,TcpListener::local_addr bound="listener pre-existing; one failing call" timeout=900
scenario!(tcp_accept, 1, 5, {
    let k = ks();
    let saved = k.fail_mask;
    k.fail_mask = 0;
    let mut l = TcpListener::bind(&addr()).unwrap();
    k.fail_mask = saved;
    k.begin_operation();
    let which: u8 = kani::any();
    let r = match which {
        0 => own(l.accept()),
        1 => own(l.accept_with_timeout(Duration::new(1, 0))),
        2 => {
            let _ = l.local_addr();
            0
        }
        _ => match l.try_accept() {
            Ok(Some(s)) => own(Ok(s)),
            _ => 0,
        },
    };
    core::mem::forget(l);
    r
});

// ---------------- epoll
// @ob C12 quick epoll_driver fns=EpollDriver::create,EpollDriver::register,EpollDriver::modify,EpollDriver::unregister,EpollDriver::wait bound="one failing call" timeout=900
scenario!(epoll_driver, 1, 5, {
    use tiny_std::linux::epoll::{EpollDriver, EpollEvent, EpollEventMask, EpollTimeout};
    match EpollDriver::create(kani::any()) {
        Ok(d) => {
            let _ = d.register(rusl::platform::STDIN, 7, EpollEventMask::EPOLLIN);
            let _ = d.modify(rusl::platform::STDIN, 8, EpollEventMask::EPOLLIN);
            let mut ev = [EpollEvent::new(0, EpollEventMask::empty())];
            let _ = d.wait(&mut ev, EpollTimeout::NoWait);
            let _ = d.unregister(rusl::platform::STDIN);
            bit(raw_of(d))
        }
        Err(_) => 0,
    }
});

// (getpwuid_r opens "/etc/passwd" through a C string literal `c"..."`, which Kani 0.68 cannot encode; not covered.)
