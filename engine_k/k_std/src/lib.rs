//! Kani harnesses over tiny-std (compiled from /repo/tiny-std, unchanged, default features) above the
//! symbolic kernel — properties C12 C13 C14 C15 C16 C18 C19.
#![allow(dead_code)]
#![allow(unused_imports)]
#![allow(clippy::all)]
extern crate alloc;

#[cfg(kani)]
pub mod c19;
#[cfg(kani)]
pub mod c12;
#[cfg(kani)]
pub mod c13;
#[cfg(kani)]
pub mod c15;
pub mod c15_readbuf;
#[cfg(kani)]
pub mod c14;
#[cfg(kani)]
pub mod c16;
