//! C19 — time arithmetic is exact or None, never panics; monotonic clock and sleep hold.
use core::time::Duration;
use rusl::platform::TimeSpec;
use sc::vk::ks;
use tiny_std::time::{Instant, MonotonicInstant, SystemTime};

const NS: i64 = 1_000_000_000;

fn any_duration() -> Duration {
    let s: u64 = kani::any();
    let n: u32 = kani::any();
    kani::assume(n < 1_000_000_000);
    Duration::new(s, n)
}
/// normalised time value; `neg` allows negative seconds (SystemTime before the epoch)
fn any_ts(neg: bool) -> TimeSpec {
    let s: i64 = kani::any();
    let n: i64 = kani::any();
    kani::assume(n >= 0 && n < NS);
    kani::assume(neg || s >= 0);
    TimeSpec::new(s, n)
}
fn st(ts: TimeSpec) -> SystemTime {
    SystemTime::from(ts)
}
fn st_ts(t: SystemTime) -> TimeSpec {
    // SystemTime has no accessor: difference to the epoch, which is exact for t >= epoch (checked separately)
    let d = t.duration_since_unix_time();
    TimeSpec::new(d.as_secs() as i64, d.subsec_nanos() as i64)
}

/// exactness of t + d without multiplication: (S',N') is the sum iff 0 <= N' < 1e9 and
/// (N + n - N', S' - S - D) is (0,0) or (1e9,1), in 128-bit arithmetic.
fn is_exact_sum(t: TimeSpec, d: Duration, r: TimeSpec) -> bool {
    let (s, n) = (t.seconds() as i128, t.nanoseconds() as i128);
    let (ds, dn) = (d.as_secs() as i128, d.subsec_nanos() as i128);
    let (rs, rn) = (r.seconds() as i128, r.nanoseconds() as i128);
    if rn < 0 || rn >= NS as i128 {
        return false;
    }
    let carry_n = n + dn - rn;
    let carry_s = rs - s - ds;
    (carry_n == 0 && carry_s == 0) || (carry_n == NS as i128 && carry_s == 1)
}
/// does t + d fit (seconds <= i64::MAX)?
fn sum_fits(t: TimeSpec, d: Duration) -> bool {
    let carry = if t.nanoseconds() as i128 + d.subsec_nanos() as i128 >= NS as i128 { 1 } else { 0 };
    t.seconds() as i128 + d.as_secs() as i128 + carry <= i64::MAX as i128
}
/// t - d as (seconds, nanos) in 128-bit, normalised
fn diff128(t: TimeSpec, d: Duration) -> (i128, i128) {
    let mut n = t.nanoseconds() as i128 - d.subsec_nanos() as i128;
    let mut s = t.seconds() as i128 - d.as_secs() as i128;
    if n < 0 {
        n += NS as i128;
        s -= 1;
    }
    (s, n)
}

// ---------- SystemTime (at or after the epoch): exactness
// @ob C19 quick systime_add_exact fns=checked_add_dur,SystemTime::add,SystemTime::duration_since_unix_time,sub_ts_dur bound="t: 0<=secs<=i64::MAX, 0<=nanos<1e9; d: any Duration (u64 secs); full width" timeout=600
#[kani::proof]
fn systime_add_exact() {
    let t = any_ts(false);
    let d = any_duration();
    kani::cover!(t.nanoseconds() + d.subsec_nanos() as i64 >= NS, "nanosecond carry");
    kani::cover!(!sum_fits(t, d) && d.as_secs() <= i64::MAX as u64, "seconds overflow by carry or sum");
    kani::cover!(d.as_secs() > i64::MAX as u64, "duration seconds beyond i64");
    kani::cover!(t.seconds() == i64::MAX && sum_fits(t, d), "t at the i64::MAX second");
    match st(t) + d {
        Some(r) => {
            assert!(sum_fits(t, d), "Some only when representable");
            assert!(is_exact_sum(t, d, st_ts(r)), "t + d exact and normalised");
        }
        None => assert!(!sum_fits(t, d), "None only when unrepresentable"),
    }
}

// @ob C19 quick systime_sub_exact fns=checked_sub_dur,SystemTime::sub bound="t: 0<=secs<=i64::MAX; d: any Duration; full width" timeout=600
#[kani::proof]
fn systime_sub_exact() {
    let t = any_ts(false);
    let d = any_duration();
    let (s, n) = diff128(t, d);
    kani::cover!(t.nanoseconds() < d.subsec_nanos() as i64 && s >= 0, "nanosecond borrow");
    kani::cover!(s == -1, "just below the epoch");
    kani::cover!(s == 0 && n == 0 && d.as_secs() > 0, "exactly the epoch");
    match st(t) - d {
        Some(r) => {
            let r = st_ts(r);
            assert!(s >= 0, "Some only when the result is not negative");
            assert!(r.seconds() as i128 == s && r.nanoseconds() as i128 == n, "t - d exact and normalised");
        }
        None => assert!(s < 0, "None only when the result is negative"),
    }
}

// @ob C19 quick systime_diff_exact fns=sub_ts_checked_dur,SystemTime::sub,SystemTime::duration_since bound="a, b: 0<=secs<=i64::MAX, normalised nanos; full width" timeout=600
#[kani::proof]
fn systime_diff_exact() {
    let a = any_ts(false);
    let b = any_ts(false);
    let mut n = a.nanoseconds() as i128 - b.nanoseconds() as i128;
    let mut s = a.seconds() as i128 - b.seconds() as i128;
    if n < 0 {
        n += NS as i128;
        s -= 1;
    }
    kani::cover!(s >= 0 && a.nanoseconds() < b.nanoseconds(), "borrow");
    kani::cover!(s < 0, "negative difference");
    kani::cover!(s == 0 && n == 0, "equal");
    let r = st(a) - st(b);
    let r2 = st(a).duration_since(st(b));
    assert!(r == r2, "operator and duration_since agree");
    match r {
        Some(d) => {
            assert!(s >= 0 && d.as_secs() as i128 == s && d.subsec_nanos() as i128 == n, "a - b exact");
        }
        None => assert!(s < 0, "None only for a negative difference"),
    }
    // ordering agrees with subtraction
    let lt = st(a) < st(b);
    assert!(lt == (s < 0), "a < b iff a - b is negative");
    assert!((st(a) == st(b)) == (s == 0 && n == 0), "a == b iff a - b is zero");
}

// @ob C19 quick systime_roundtrip fns=checked_add_dur,checked_sub_dur,sub_ts_checked_dur bound="t at or after the epoch, d any Duration with t+d representable; full width" timeout=600
#[kani::proof]
fn systime_roundtrip() {
    let t = any_ts(false);
    let d = any_duration();
    let Some(u) = st(t) + d else { return };
    kani::cover!(d.as_secs() > 0 && d.subsec_nanos() > 0, "non-trivial duration");
    kani::cover!(t.nanoseconds() + d.subsec_nanos() as i64 >= NS, "carry");
    assert!((u - d) == Some(st(t)), "(t+d)-d = t");
    assert!((u - st(t)) == Some(d), "(t+d)-t = d");
    assert!(u >= st(t), "t+d >= t");
}

// ---------- Instant: same arithmetic through Instant's operators (Instant::now supplies arbitrary values via the clock)
// @ob C19 quick instant_arith fns=Instant::now,Instant::add,Instant::sub,Instant::duration_since,clock_get_monotonic_time bound="now: arbitrary clock reading (0<=secs<=i64::MAX), d any Duration; full width" timeout=600 stubs="clock_gettime returns arbitrary non-decreasing normalised instants"
#[kani::proof]
fn instant_arith() {
    ks().model_no_faults();
    let t = Instant::now();
    let ts = *t.as_ref();
    assert!(ts.nanoseconds() >= 0 && ts.nanoseconds() < NS && ts.seconds() >= 0);
    let d = any_duration();
    kani::cover!(ts.seconds() > (1i64 << 40), "large clock value");
    match t + d {
        Some(u) => {
            assert!(sum_fits(ts, d));
            assert!(is_exact_sum(ts, d, *u.as_ref()), "Instant + d exact");
            assert!((u - d) == Some(t), "(t+d)-d = t");
            assert!((u - t) == Some(d), "(t+d)-t = d");
            assert!(u.duration_since(t) == Some(d));
            kani::cover!(d.as_secs() > 0, "non-zero duration added");
        }
        None => assert!(!sum_fits(ts, d)),
    }
    let (s, n) = diff128(ts, d);
    match t - d {
        Some(u) => assert!(s >= 0 && u.as_ref().seconds() as i128 == s && u.as_ref().nanoseconds() as i128 == n),
        None => assert!(s < 0),
    }
}

// ---------- panic-freedom on the extended domain (negative seconds down to i64::MIN)
// @ob C19 quick systime_no_panic_extended fns=checked_add_dur,checked_sub_dur,sub_ts_checked_dur,sub_ts_dur bound="SystemTime secs in i64::MIN..=i64::MAX, normalised nanos, any Duration; panic-freedom and None-or-normalised" timeout=600
#[kani::proof]
fn systime_no_panic_extended() {
    let a = any_ts(true);
    let b = any_ts(true);
    let d = any_duration();
    kani::cover!(a.seconds() == i64::MIN, "i64::MIN seconds");
    kani::cover!(a.seconds() < 0 && b.seconds() > 0, "mixed signs");
    let _ = st(a) + d;
    let _ = st(a) - d;
    let r = st(a) - st(b);
    if let Some(x) = r {
        assert!(x.subsec_nanos() < 1_000_000_000);
        assert!(st(a) >= st(b), "a positive difference means a >= b");
    }
    let _ = st(a).duration_since(st(b));
    let _ = st(a) < st(b);
}

// ---------- monotonic clock
// @ob C19 quick monotonic_elapsed fns=MonotonicInstant::now,MonotonicInstant::elapsed,sub_ts_dur,Instant::elapsed bound="three successive arbitrary non-decreasing clock readings; full width" timeout=600 stubs="clock_gettime returns arbitrary non-decreasing normalised instants"
#[kani::proof]
fn monotonic_elapsed() {
    ks().model_no_faults();
    let a = MonotonicInstant::now();
    let b = MonotonicInstant::now();
    assert!(a <= b, "successive readings never decrease");
    let e = a.elapsed(); // third reading inside
    assert!(e.subsec_nanos() < 1_000_000_000);
    let c = ks();
    kani::cover!(c.clock_calls == 3, "three clock reads");
    // elapsed is exactly (third reading - a)
    let ai = a.as_instant();
    let back = ai + e;
    assert!(back.is_some(), "a + elapsed is representable (it is the third reading)");
    let back = back.unwrap();
    assert!(back.as_ref().seconds() == c.mono_s && back.as_ref().nanoseconds() == c.mono_ns, "elapsed = now - then");
    let i = Instant::now();
    assert!(i.elapsed().is_some(), "Instant::elapsed of a past reading is Some");
}

// ---------- sleep
// @ob C19 quick sleep_reissues_remainder fns=thread::sleep,nanosleep_same_ptr,TimeSpec::try_from bound="any Duration; up to 3 EINTR interruptions each after sleeping an arbitrary part" timeout=900 stubs="nanosleep: completes or EINTR with exact remainder written to rem"
#[kani::proof]
#[kani::unwind(6)]
fn sleep_reissues_remainder() {
    ks().model_no_faults();
    let d = any_duration();
    let r = tiny_std::thread::sleep(d);
    let k = ks();
    kani::cover!(k.sleep_calls == 1 && r.is_ok(), "uninterrupted");
    kani::cover!(k.sleep_calls == 4 && r.is_ok(), "interrupted three times");
    kani::cover!(r.is_err(), "duration does not fit a timespec");
    match r {
        Ok(()) => {
            assert!(d.as_secs() <= i64::MAX as u64);
            assert!(k.sleep_calls >= 1 && k.sleep_done, "returns only after a nanosleep completed");
            assert!(k.sleep_first_s == d.as_secs() as i64 && k.sleep_first_ns == d.subsec_nanos() as i64,
                    "first request is exactly the requested duration");
            assert!(!k.sleep_bad_request, "every retry asks for exactly the remainder the kernel reported");
        }
        Err(_) => {
            assert!(d.as_secs() > i64::MAX as u64, "only an unrepresentable duration is refused");
            assert!(k.sleep_calls == 0);
        }
    }
}

// @ob C19 quick sleep_error_surfaces fns=thread::sleep,nanosleep_same_ptr bound="nanosleep failing with any errno at any of the first 3 calls" timeout=900
#[kani::proof]
#[kani::unwind(6)]
fn sleep_error_surfaces() {
    ks().model_with_one_fault();
    let d = Duration::new(kani::any::<u32>() as u64, 5);
    let r = tiny_std::thread::sleep(d);
    let k = ks();
    kani::cover!(k.n_failed == 1 && k.last_errno != 4, "a real failure injected");
    kani::cover!(k.n_failed == 1 && k.last_errno == 4, "injected EINTR without remainder update");
    if k.n_failed == 1 && k.last_errno != 4 {
        assert!(r.is_err(), "a non-EINTR failure is returned");
    }
    if r.is_ok() {
        assert!(k.sleep_done);
    }
}

// @ob C19 quick timespec_from_duration fns=TimeSpec::try_from bound="any Duration" timeout=300
#[kani::proof]
fn timespec_from_duration() {
    let d = any_duration();
    kani::cover!(d.as_secs() > i64::MAX as u64, "too large");
    kani::cover!(d.as_secs() == i64::MAX as u64, "largest");
    match TimeSpec::try_from(d) {
        Ok(ts) => assert!(ts.seconds() as u64 == d.as_secs() && ts.seconds() >= 0 && ts.nanoseconds() == d.subsec_nanos() as i64),
        Err(_) => assert!(d.as_secs() > i64::MAX as u64),
    }
}
